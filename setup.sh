#!/bin/bash
# Offline set-up check: everything is interpreted (Python) or rebuilt per run from /repo into a scratch
# directory, so there is nothing to build here; verify that the tools the checks need are present.
set -e
cd "$(dirname "$0")"
python3-vt -c "import z3, sys; print('z3', z3.get_version_string())"
cargo +nightly --version
cargo kani --version >/dev/null && echo kani-ok
python3-vt -m py_compile mirsym/*.py props/*.py spec/*.py vlib.py
echo setup-ok
