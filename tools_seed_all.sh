#!/bin/bash
# Re-run every property's quick check against its seeded change(s) (seeded/<ID> and seeded/<ID>b) on a scratch copy of /repo's CURRENT tree
# (VERIF_REPO), N at a time; results in seeded/<id>/meta.json (field "on_current_tree") and on stdout.
N=${1:-5}
cd "$(dirname "$0")"
one() {
  id=$1; prop=${id:0:3}
  W=/var/tmp/verif-seedrun/$id; rm -rf $W; mkdir -p $W
  rsync -a --exclude /target --exclude /website /repo/ $W/repo/
  how=clean
  if [ -f /verif/seeded/$id/patch_on_repaired_tree.diff ] && git -C $W/repo apply /verif/seeded/$id/patch_on_repaired_tree.diff 2>/dev/null; then
    how=repaired-tree-variant
  elif ! git -C $W/repo apply /verif/seeded/$id/patch.diff 2>/dev/null; then
    how=3way
    git -C $W/repo apply --3way /verif/seeded/$id/patch.diff >/dev/null 2>&1 || how=conflict
  fi
  if [ $how = conflict ]; then out="patch does not apply to the current tree"; else
    out=$(VERIF_REPO=$W/repo VERIF_EVIDENCE_DIR=$W/evidence ./check $prop --tier quick 2>&1 | grep -E "^(VIOLATION|OK|INCONCLUSIVE)" | head -2 | tr "\n" " ")
  fi
  python3 - "$id" "$how" "$out" <<'PY'
import json, sys
id, how, out = sys.argv[1:4]
p = "/verif/seeded/%s/meta.json" % id
m = json.load(open(p))
m["on_current_tree"] = dict(applied=how, check_output=out, detected=("VIOLATION" in out))
json.dump(m, open(p, "w"), indent=1)
PY
  echo "$id applied=$how -> $out" | cut -c1-220
  rm -rf $W
}
export -f one
# optional further arguments: only these seed directories
if [ $# -gt 1 ]; then shift; printf "%s\n" "$@"; else ls seeded; fi | xargs -P $N -I{} bash -c 'one {}'
