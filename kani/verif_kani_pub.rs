// Kani proof harnesses over the PUBLIC api of the crate (attached to src/lib.rs in a scratch
// copy by /verif/check as `#[cfg(kani)] mod verif_kani_pub;`).  Never committed to /repo.
#![allow(deprecated, unused_imports, dead_code)]
use crate::ast::{
    Action, Comparison, Expression as Exp, FormatElement, FormatField, FormatSpecial, GlobalOption,
    Operator, PositionalOption, Size, Test, TimeSpec,
};
use crate::RunOptions;
use std::rc::Rc;

// ------------------------------------------------------------------------------- C19 units
fn any_size(n: u64) -> (Size, u64) {
    let k: u8 = kani::any();
    kani::assume(k < 7);
    match k {
        0 => (Size::Byte(n), 1),
        1 => (Size::Word(n), 2),
        2 => (Size::Block(n), 512),
        3 => (Size::KiloByte(n), 1u64 << 10),
        4 => (Size::MegaByte(n), 1u64 << 20),
        5 => (Size::GigaByte(n), 1u64 << 30),
        _ => (Size::TeraByte(n), 1u64 << 40),
    }
}

#[kani::proof]
fn c19_size_units() {
    let n: u64 = kani::any();
    let (s, unit) = any_size(n);
    assert_eq!(s.mult(), unit);
    kani::cover!(unit == 1u64 << 40);
}

#[kani::proof]
fn c19_time_units() {
    let n: u64 = kani::any();
    let k: u8 = kani::any();
    kani::assume(k < 4);
    let (t, unit) = match k {
        0 => (TimeSpec::Second(n), 1u64),
        1 => (TimeSpec::Minute(n), 60),
        2 => (TimeSpec::Hour(n), 3600),
        _ => (TimeSpec::Day(n), 86400),
    };
    assert_eq!(t.secs(), unit);
    kani::cover!(k == 3);
}

/// byte size = count * unit whenever that fits the result type (C19); the non-fitting case is
/// the subject of c07_byte_size_overflow below.
#[kani::proof]
fn c19_byte_size_fits() {
    let n: u64 = kani::any();
    let (s, unit) = any_size(n);
    let exact = (n as u128) * (unit as u128);
    kani::assume(exact <= u64::MAX as u128);
    assert_eq!(s.byte_size() as u128, exact);
    kani::cover!(n > 1 && unit > 1);
}

/// C07/C03/C17: for counts whose product with the unit does not fit, byte_size must not return
/// a different number (and must not panic).  Expected to FAIL on the pinned tree.
#[kani::proof]
fn c07_byte_size_overflow() {
    let n: u64 = kani::any();
    let (s, unit) = any_size(n);
    let exact = (n as u128) * (unit as u128);
    let got = s.byte_size();
    assert!(got as u128 == exact);
}

// ------------------------------------------------------------------------------- C19 trees
fn fmt_list() -> (Vec<FormatElement>, bool) {
    // returns (list, "last element exists and is not the newline escape")
    let k: u8 = kani::any();
    kani::assume(k < 6);
    match k {
        0 => (Vec::new(), false),
        1 => (vec![FormatElement::Special(FormatSpecial::Newline)], false),
        2 => (vec![FormatElement::Special(FormatSpecial::TabHorizontal)], true),
        3 => (vec![FormatElement::Field(FormatField::Name)], true),
        4 => (
            vec![
                FormatElement::Special(FormatSpecial::Newline),
                FormatElement::Field(FormatField::Percent),
            ],
            true,
        ),
        _ => (
            vec![
                FormatElement::Literal(String::new()),
                FormatElement::Special(FormatSpecial::Newline),
            ],
            false,
        ),
    }
}

/// (expression, contains an action, needs framed output) -- the two booleans are the
/// specification side, computed from the generator's choices only.
fn leaf() -> (Exp, bool, bool) {
    let k: u8 = kani::any();
    kani::assume(k < 18);
    match k {
        0 => (Exp::Test(Test::True), false, false),
        1 => (Exp::Test(Test::Name(String::new())), false, false),
        2 => (Exp::Global(GlobalOption::Depth), false, false),
        3 => (Exp::Positional(PositionalOption::XDev), false, false),
        4 => (Exp::Action(Action::Print), true, false),
        5 => (Exp::Action(Action::Quit), true, false),
        6 => (Exp::Action(Action::Prune), true, false),
        7 => (Exp::Action(Action::List), true, false),
        8 => (Exp::Action(Action::PrintFid), true, false),
        9 => (Exp::Action(Action::DefaultPrint), true, false),
        10 => (Exp::Action(Action::PrintNull), true, true),
        11 => (Exp::Action(Action::FileList(String::new())), true, true),
        12 => (Exp::Action(Action::FilePrint(String::new())), true, true),
        13 => (Exp::Action(Action::FilePrintNull(String::new())), true, true),
        14 => {
            let (f, _) = fmt_list();
            (Exp::Action(Action::FilePrintFormatted(String::new(), f)), true, true)
        }
        15 => {
            let (f, c) = fmt_list();
            (Exp::Action(Action::PrintFormatted(f)), true, c)
        }
        16 => (Exp::Test(Test::False), false, false),
        _ => (Exp::Global(GlobalOption::Threads(kani::any())), false, false),
    }
}

fn tree(depth: u32) -> (Exp, bool, bool) {
    if depth == 0 {
        return leaf();
    }
    let k: u8 = kani::any();
    kani::assume(k < 6);
    match k {
        0 => leaf(),
        1 => {
            let (e, a, c) = tree(depth - 1);
            (Exp::Operator(Rc::new(Operator::Not(e))), a, c)
        }
        2 => {
            let (e, a, c) = tree(depth - 1);
            (Exp::Operator(Rc::new(Operator::Precedence(e))), a, c)
        }
        3 => {
            let (l, a1, c1) = tree(depth - 1);
            let (r, a2, c2) = tree(depth - 1);
            (Exp::Operator(Rc::new(Operator::And(l, r))), a1 || a2, c1 || c2)
        }
        4 => {
            let (l, a1, c1) = tree(depth - 1);
            let (r, a2, c2) = tree(depth - 1);
            (Exp::Operator(Rc::new(Operator::Or(l, r))), a1 || a2, c1 || c2)
        }
        _ => {
            let (l, a1, c1) = tree(depth - 1);
            let (r, a2, c2) = tree(depth - 1);
            (Exp::Operator(Rc::new(Operator::List(l, r))), a1 || a2, c1 || c2)
        }
    }
}

#[kani::proof]
#[kani::unwind(4)]
fn c19_leaf_helpers() {
    let (e, a, c) = leaf();
    assert_eq!(e.action(), a);
    assert_eq!(e.complex_frames(), c);
    kani::cover!(a && c);
    kani::cover!(a && !c);
    std::mem::forget(e);
}

#[kani::proof]
#[kani::unwind(4)]
fn c19_tree_depth1() {
    let (e, a, c) = tree(1);
    assert_eq!(e.action(), a);
    assert_eq!(e.complex_frames(), c);
    kani::cover!(a && c);
    std::mem::forget(e);
}

#[kani::proof]
#[kani::unwind(4)]
fn c19_tree_depth2() {
    let (e, a, c) = tree(2);
    assert_eq!(e.action(), a);
    assert_eq!(e.complex_frames(), c);
    kani::cover!(a && c);
    std::mem::forget(e);
}

// ------------------------------------------------------------------------------- C13/C03
/// RunOptions::update must accept every option value (expected to FAIL on the pinned tree for
/// MaxDepth/MinDepth: unreachable!()).
#[kani::proof]
fn c13_update_total() {
    let k: u8 = kani::any();
    kani::assume(k < 4);
    let v: u32 = kani::any();
    let opt = match k {
        0 => GlobalOption::Depth,
        1 => GlobalOption::Threads(v),
        2 => GlobalOption::MaxDepth(v),
        _ => GlobalOption::MinDepth(v),
    };
    let mut o = RunOptions::default();
    o.update(&opt);
}

#[kani::proof]
fn c13_update_last_wins() {
    let a: u32 = kani::any();
    let b: u32 = kani::any();
    let d0: bool = kani::any();
    let d1: bool = kani::any();
    let mut o = RunOptions::default();
    assert!(!o.depth && o.threads.is_none());
    if d0 {
        o.update(&GlobalOption::Depth);
    }
    o.update(&GlobalOption::Threads(a));
    if d1 {
        o.update(&GlobalOption::Depth);
    }
    o.update(&GlobalOption::Threads(b));
    assert_eq!(o.threads, Some(b));
    assert_eq!(o.depth, d0 || d1);
    kani::cover!(a != b && d0);
}
