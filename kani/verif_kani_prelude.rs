// Kani proof harnesses for the digit parsers of src/find_parser/prelude.rs (private items): attached to
// src/find_parser/mod.rs in a scratch copy as `#[cfg(kani)] mod verif_kani_prelude;`.  Never committed to /repo.
// They anchor Engine M's model of `digit1.try_map(str::parse::<uN>)` on the compiled crate + real winnow/std.
use crate::find_parser::prelude::Parseable;

fn decimal_value(d: &[u8]) -> u128 {
    let mut v: u128 = 0;
    let mut i = 0;
    while i < d.len() {
        v = v * 10 + (d[i] - b'0') as u128;
        i += 1;
    }
    v
}

#[kani::proof]
#[kani::unwind(12)]
fn c07_u32_digits_exact_or_rejected() {
    // 1..=10 ASCII digits followed by a non-digit terminator or end
    let len: usize = kani::any();
    kani::assume(len >= 1 && len <= 10);
    let bytes: [u8; 10] = kani::any();
    let mut i = 0;
    while i < 10 {
        kani::assume(bytes[i] >= b'0' && bytes[i] <= b'9');
        i += 1;
    }
    let s = unsafe { std::str::from_utf8_unchecked(&bytes[..len]) };
    let mut input = s;
    let r = <u32 as Parseable>::parse(&mut input);
    let want = decimal_value(&bytes[..len]);
    match r {
        Ok(v) => {
            assert!(want <= u32::MAX as u128);
            assert!(v as u128 == want);
            assert!(input.is_empty());
        }
        Err(_) => assert!(want > u32::MAX as u128),
    }
    kani::cover!(want > u32::MAX as u128);
    kani::cover!(want == u32::MAX as u128);
    std::mem::forget(r);
}

#[kani::proof]
#[kani::unwind(8)]
fn c07_u64_digits_exact() {
    let len: usize = kani::any();
    kani::assume(len >= 1 && len <= 6);
    let bytes: [u8; 6] = kani::any();
    let mut i = 0;
    while i < 6 {
        kani::assume(bytes[i] >= b'0' && bytes[i] <= b'9');
        i += 1;
    }
    let s = unsafe { std::str::from_utf8_unchecked(&bytes[..len]) };
    let mut input = s;
    let r = <u64 as Parseable>::parse(&mut input);
    let want = decimal_value(&bytes[..len]);
    match r {
        Ok(v) => assert!(v as u128 == want),
        Err(_) => assert!(false),
    }
    std::mem::forget(r);
}
