#!/bin/bash
# tools_seed_try.sh <seed dir name> [check id] [extra check args]: run one check against a stored seed on a scratch copy of /repo (kept output: full)
id=$1; prop=${2:-${id:0:3}}; shift; shift
cd "$(dirname "$0")"
W=/var/tmp/verif-seedtry/$id-$prop; rm -rf $W; mkdir -p $W
rsync -a --exclude /target --exclude /website /repo/ $W/repo/
if [ -f seeded/$id/patch_on_repaired_tree.diff ]; then git -C $W/repo apply /verif/seeded/$id/patch_on_repaired_tree.diff; else git -C $W/repo apply /verif/seeded/$id/patch.diff; fi || { echo "patch does not apply"; exit 3; }
VERIF_REPO=$W/repo VERIF_EVIDENCE_DIR=$W/evidence ./check $prop --tier quick "$@" 2>&1 | grep -E "${VERIF_TRY_GREP:-^(VIOLATION|OK|INCONCLUSIVE|  class|KNOWN)}" | head -${VERIF_TRY_LINES:-8} | cut -c1-400
rm -rf $W
