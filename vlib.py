# Common plumbing for /verif/check: scratch copies, native driver, MIR dumps, Kani runs,
# evidence files, known findings, verdict/exit-code policy.
import atexit, hashlib, json, os, re, shutil, subprocess, sys, time

VERIF = os.path.dirname(os.path.abspath(__file__))
REPO = os.environ.get("VERIF_REPO", "/repo")
ENV = dict(os.environ, CARGO_NET_OFFLINE="true", CARGO_TERM_COLOR="never")


def log(*a):
    print(*a, file=sys.stderr, flush=True)


class Inconclusive(Exception):
    """The machinery could not decide (unsupported construct, timeout, model mismatch)."""


class Scratch:
    """Per-invocation scratch root outside /repo and /verif; removed at exit."""

    def __init__(self):
        base = os.environ.get("VERIF_SCRATCH_BASE", "/var/tmp")
        self.root = os.path.join(base, "verif-%d" % os.getpid())
        shutil.rmtree(self.root, ignore_errors=True)
        os.makedirs(self.root)
        atexit.register(self.cleanup)
        self._repo = None
        self._native = {}
        self._mir = {}

    def cleanup(self):
        if os.environ.get("VERIF_KEEP"):
            return
        shutil.rmtree(self.root, ignore_errors=True)

    def path(self, *p):
        return os.path.join(self.root, *p)

    def repo(self):
        """A copy of /repo's working tree (no target/, no .git/)."""
        if self._repo is None:
            dst = self.path("repo")
            subprocess.check_call(
                ["rsync", "-a", "--exclude", "/target", "--exclude", "/.git", "--exclude", "/website",
                 REPO + "/", dst + "/"])
            self._repo = dst
        return self._repo

    def source_hash(self):
        h = hashlib.sha256()
        root = os.path.join(self.repo(), "src")
        for d, _, fs in sorted(os.walk(root)):
            for f in sorted(fs):
                if f.endswith(".rs"):
                    p = os.path.join(d, f)
                    h.update(os.path.relpath(p, root).encode())
                    h.update(open(p, "rb").read())
        return h.hexdigest()[:16]

    # ---------------------------------------------------------------- native driver
    def native(self, profile):
        if profile not in self._native:
            repo = self.repo()
            shutil.copy(os.path.join(VERIF, "native", "verif_driver.rs"),
                        os.path.join(repo, "examples", "verif_driver.rs"))
            tgt = self.path("tgt-native")
            cmd = ["cargo", "build", "--offline", "--example", "verif_driver", "--target-dir", tgt]
            if profile == "release":
                cmd.append("--release")
            t = time.time()
            r = subprocess.run(cmd, cwd=repo, env=ENV, capture_output=True, text=True)
            if r.returncode != 0:
                raise Inconclusive("native driver does not build (%s):\n%s" % (profile, r.stderr[-3000:]))
            log("[native] built %s driver in %.1fs" % (profile, time.time() - t))
            self._native[profile] = os.path.join(tgt, profile, "examples", "verif_driver")
        return self._native[profile]

    def run_native(self, inputs, profile="debug", mdt=None, sleep_ms=None, timeout=600):
        """inputs: list of str (or (str, mdt) pairs).  Returns list of dict key->str."""
        exe = self.native(profile)
        lines = []
        for i in inputs:
            s, m = i if isinstance(i, tuple) else (i, mdt)
            l = "x" + s.encode("utf-8").hex()
            if m is not None:
                l += " x" + m.encode("utf-8").hex()
            lines.append(l)
        data = "\n".join(lines) + "\n"
        env = dict(os.environ, VERIF_DRIVER_SLEEP_MS=str(sleep_ms)) if sleep_ms else None
        r = subprocess.run([exe], input=data, capture_output=True, text=True, timeout=timeout, env=env)
        if r.returncode != 0:
            raise Inconclusive("native driver crashed: rc=%s %s" % (r.returncode, r.stderr[-2000:]))
        out = []
        for line in r.stdout.splitlines():
            d = {}
            for kv in line.split():
                k, _, v = kv.partition("=")
                d[k] = bytes.fromhex(v).decode("utf-8", "replace")
            out.append(d)
        if len(out) != len(inputs):
            raise Inconclusive("native driver answered %d of %d requests" % (len(out), len(inputs)))
        return out

    def run_native_history(self, expr, paths, profile="debug", sleep_ms=None):
        """one compiled value rendered for each path in turn -> list of programs (None when the expression does not compile)"""
        exe = self.native(profile)
        line = " ".join("x" + t.encode("utf-8").hex() for t in [expr] + list(paths)) + "\n"
        env = dict(os.environ, VERIF_DRIVER_SLEEP_MS=str(sleep_ms)) if sleep_ms else None
        r = subprocess.run([exe], input=line, capture_output=True, text=True, timeout=600, env=env)
        if r.returncode != 0:
            raise Inconclusive("native driver crashed: rc=%s %s" % (r.returncode, r.stderr[-2000:]))
        d = {}
        for kv in r.stdout.splitlines()[0].split():
            k, _, v = kv.partition("=")
            d[k] = bytes.fromhex(v).decode("utf-8", "replace")
        if "scheme" not in d:
            return None
        return [d["scheme"]] + [d["hist%d" % i] for i in range(1, len(paths)) if "hist%d" % i in d]

    def run_native_trees(self, sexprs, profile="debug", mdt=None):
        """tree requests (see native/verif_driver.rs): list of s-expression strings -> list of dict"""
        exe = self.native(profile)
        lines = []
        for s in sexprs:
            l = "T x" + s.encode("utf-8").hex()
            if mdt is not None:
                l += " x" + mdt.encode("utf-8").hex()
            lines.append(l)
        r = subprocess.run([exe], input="\n".join(lines) + "\n", capture_output=True, text=True, timeout=600)
        if r.returncode != 0:
            raise Inconclusive("native driver crashed: rc=%s %s" % (r.returncode, r.stderr[-2000:]))
        out = []
        for line in r.stdout.splitlines():
            d = {}
            for kv in line.split():
                k, _, v = kv.partition("=")
                d[k] = bytes.fromhex(v).decode("utf-8", "replace")
            out.append(d)
        if len(out) != len(sexprs):
            raise Inconclusive("native driver answered %d of %d tree requests" % (len(out), len(sexprs)))
        return out

    # ---------------------------------------------------------------- MIR dumps
    def mir(self, profile="dev"):
        """profile: dev (debug-assertions+overflow-checks on) | rel (both off)."""
        if profile not in self._mir:
            repo = self.repo()
            flag = "on" if profile == "dev" else "off"
            tgt = self.path("tgt-mir-" + profile)
            lib = os.path.join(repo, "src", "lib.rs")
            os.utime(lib, None)
            t = time.time()
            r = subprocess.run(
                ["cargo", "+nightly", "rustc", "--offline", "--lib", "--target-dir", tgt, "--",
                 "-Zunpretty=mir", "-C", "debug-assertions=" + flag, "-C", "overflow-checks=" + flag],
                cwd=repo, env=ENV, capture_output=True, text=True)
            if r.returncode != 0 or len(r.stdout) < 1000:
                raise Inconclusive("MIR dump failed (%s):\n%s" % (profile, r.stderr[-3000:]))
            p = self.path(profile + ".mir")
            open(p, "w").write(r.stdout)
            log("[mir] %s dump: %d lines in %.1fs" % (profile, r.stdout.count("\n"), time.time() - t))
            self._mir[profile] = p
        return self._mir[profile]

    # ---------------------------------------------------------------- Kani
    def kani_prepare(self, attach):
        """attach: list of (harness_file_in_/verif/kani, module_file_rel, mod_name).
        Copies each harness next to the module and appends `#[cfg(kani)] mod <name>;`."""
        repo = self.repo()
        for hf, modfile, modname in attach:
            mf = os.path.join(repo, modfile)
            d = os.path.dirname(mf)
            base = os.path.basename(mf)
            # child modules of foo.rs live in foo/, of mod.rs / lib.rs in the same directory
            if base in ("mod.rs", "lib.rs"):
                dst = os.path.join(d, modname + ".rs")
            else:
                sub = os.path.join(d, base[:-3])
                os.makedirs(sub, exist_ok=True)
                dst = os.path.join(sub, modname + ".rs")
            if os.path.exists(dst):
                continue
            shutil.copy(os.path.join(VERIF, "kani", hf), dst)
            with open(mf, "a") as f:
                f.write("\n#[cfg(kani)]\nmod %s;\n" % modname)
        return repo

    def kani_run(self, harnesses, timeout, jobs=8, extra=()):
        """Run each harness as its own cargo-kani process (own target dir), `jobs` in parallel.
        Returns dict harness -> dict(status, seconds, log).  status: SUCCESS | FAILED | ERROR | TIMEOUT"""
        repo = self.repo()
        procs = {}
        pending = list(harnesses)
        results = {}
        mem_kb = int(os.environ.get("VERIF_KANI_MEM_GB", "10")) * 1024 * 1024

        def start(h):
            tgt = self.path("tgt-kani-" + re.sub(r"\W", "_", h))
            logf = self.path("kani-%s.log" % re.sub(r"\W", "_", h))
            cmd = "ulimit -v %d; exec timeout %d cargo kani --harness %s --target-dir %s %s" % (
                mem_kb, timeout, h, tgt, " ".join(extra))
            f = open(logf, "w")
            p = subprocess.Popen(["bash", "-c", cmd], cwd=repo, env=ENV, stdout=f, stderr=subprocess.STDOUT)
            procs[h] = (p, time.time(), logf, tgt)

        while pending or procs:
            while pending and len(procs) < jobs:
                start(pending.pop(0))
            time.sleep(0.5)
            for h in list(procs):
                p, t0, logf, tgt = procs[h]
                rc = p.poll()
                if rc is None:
                    continue
                del procs[h]
                txt = open(logf, errors="replace").read()
                if rc == 124:
                    st = "TIMEOUT"
                elif "VERIFICATION:- SUCCESSFUL" in txt and rc == 0:
                    st = "SUCCESS"
                elif "VERIFICATION:- FAILED" in txt and "Status: ERROR" not in txt and "error: " not in txt.split("VERIFICATION:- FAILED")[0][-0:]:
                    st = "FAILED"
                else:
                    st = "ERROR"
                results[h] = dict(status=st, seconds=round(time.time() - t0, 1), log=txt, rc=rc)
                shutil.rmtree(tgt, ignore_errors=True)
                log("[kani] %-48s %-8s %6.1fs" % (h, st, time.time() - t0))
        return results


# -------------------------------------------------------------------- known findings
def load_known():
    # VERIF_KNOWN_FILE: development aid for evaluating a candidate repair before its fix commit exists (never set by MANIFEST commands)
    p = os.environ.get("VERIF_KNOWN_FILE") or os.path.join(VERIF, "known_findings.json")
    if not os.path.exists(p):
        return {"known": [], "fixed": []}
    return json.load(open(p))


def known_for(pid):
    return [k for k in load_known().get("known", []) if k["property"] == pid]


# -------------------------------------------------------------------- evidence / verdicts
class Report:
    def __init__(self, pid, tier, level):
        self.pid, self.tier, self.level = pid, tier, level
        self.t0 = time.time()
        self.seed = int(os.environ.get("VERIF_SEED", "0") or 0)
        self.coverage = {}
        self.assumptions = []
        self.violations = []      # (class_key, description, replay_dict)
        self.known_hits = []      # (class_key, description)
        self.inconclusive = []    # strings
        self.queries = []         # dict(name, result, seconds)

    def query(self, name, result, seconds, **kw):
        self.queries.append(dict(name=name, result=result, seconds=round(seconds, 3), **kw))

    def violation(self, klass, desc, replay):
        """Record a replay-confirmed counterexample; classified against known findings."""
        for k in known_for(self.pid):
            if k["class"] == klass:
                if (klass, k["what"]) not in [(a, b) for a, b in self.known_hits]:
                    self.known_hits.append((klass, k["what"]))
                return "known"
        self.violations.append((klass, desc, replay))
        return "new"

    def finish(self):
        # (VERIF_EVIDENCE_DIR is only used by the seeded-change runner, which must not disturb the committed evidence)
        ev_dir = os.environ.get("VERIF_EVIDENCE_DIR") or os.path.join(VERIF, "evidence")
        os.makedirs(os.path.join(ev_dir, "replay"), exist_ok=True)
        cov = dict(self.coverage)
        cov.setdefault("queries", self.queries)
        n_unsat = sum(1 for q in self.queries if q["result"] in ("unsat", "SUCCESS"))
        cov.setdefault("obligations", len(self.queries))
        cov.setdefault("discharged", n_unsat)
        cov.setdefault("solver_seconds", round(sum(q["seconds"] for q in self.queries), 2))
        cov.setdefault("known_findings_hit", [k for k, _ in self.known_hits])
        cov.setdefault("inconclusive", self.inconclusive)
        ev = dict(property_id=self.pid, tier=self.tier, seed=self.seed, level=self.level, coverage=cov,
                  assumptions=self.assumptions, wall_s=round(time.time() - self.t0, 2),
                  violations=len(self.violations))
        with open(os.path.join(ev_dir, self.pid + ".json"), "w") as f:
            json.dump(ev, f, indent=1, default=str)
        for k, w in self.known_hits:
            print("KNOWN-FINDING: property=%s %s: %s" % (self.pid, k, w))
        if self.violations:
            for i, (k, d, rp) in enumerate(self.violations):
                p = os.path.join(ev_dir, "replay", "%s-%d.json" % (self.pid, i))
                with open(p, "w") as f:
                    json.dump(dict(property=self.pid, klass=k, description=d, replay=rp), f, indent=1, default=str)
                print("VIOLATION property=%s replay=%s" % (self.pid, p))
                log("  class=%s  %s" % (k, d))
            return 1
        if self.inconclusive:
            for m in self.inconclusive:
                print("INCONCLUSIVE property=%s %s" % (self.pid, m))
            return 2
        print("OK property=%s tier=%s obligations=%d discharged=%d wall=%.1fs" % (
            self.pid, self.tier, cov["obligations"], cov["discharged"], time.time() - self.t0))
        return 0
