#!/bin/bash
# tools_seed.sh <ID> [suffix]: confirm a seeded change produced in /tmp/seed/<ID> (patch.diff + tests/demo_*.rs), store it under
# /verif/seeded/<ID><suffix>/, and run the property's quick check against it (patch applied to /repo, reverted afterwards).
set -u
ID=$1; SUF=${2:-}; LID=$(echo $ID | tr A-Z a-z)
W=/tmp/seed/$ID
D=/verif/seeded/$ID$SUF
mkdir -p $D
cp $W/patch.diff $D/patch.diff
cp $W/tests/demo_$LID.rs $D/demo_$LID.rs
export CARGO_TARGET_DIR=/tmp/seed/target-confirm CARGO_NET_OFFLINE=true
S=/tmp/seed/confirm-$ID; rm -rf $S; git -C /repo worktree add -q --detach $S HEAD
mkdir -p $S/tests; cp $D/demo_$LID.rs $S/tests/
cd $S
base_demo=$(cargo test --offline --test demo_$LID 2>&1 | grep -E "^test result" | tail -1)
git apply $D/patch.diff || { echo "PATCH DOES NOT APPLY"; exit 1; }
suite=$(cargo test --offline --lib 2>&1 | grep -E "^test result" | tail -1)
mut_demo=$(cargo test --offline --test demo_$LID 2>&1 | grep -E "^test result" | tail -1)
cd /verif
git -C /repo worktree remove --force $S
echo "suite with change:  $suite"
echo "demo without change: $base_demo"
echo "demo with change:    $mut_demo"
git -C /repo apply $D/patch.diff
out=$(./check $ID --tier quick 2>&1 | grep -E "^(VIOLATION|OK|INCONCLUSIVE)" | head -4)
rc=$?
git -C /repo checkout -- .
echo "check on seeded tree: $out"
python3 - "$ID" "$SUF" "$suite" "$base_demo" "$mut_demo" "$out" <<'PY'
import json, sys
id, suf, suite, base, mut, out = sys.argv[1:7]
p = "/verif/seeded/%s%s/meta.json" % (id, suf)
try:
    m = json.load(open(p))
except Exception:
    m = {}
m.update(property=id, suite_with_change=suite, demo_without_change=base, demo_with_change=mut,
         ran=["cargo test --offline --lib (patched worktree)", "cargo test --offline --test demo (patched and unpatched)",
              "git -C /repo apply patch.diff; ./check %s --tier quick; git -C /repo checkout -- ." % id],
         check_output=out.splitlines(), detected=("VIOLATION" in out))
json.dump(m, open(p, "w"), indent=1)
PY
git -C /repo status --short | head -3
