#!/bin/bash
# run every check of one tier (default quick), N at a time; prints one line per property
TIER=${1:-quick}; N=${2:-5}
cd "$(dirname "$0")"
mkdir -p /var/tmp/verif-runall
ls props/c[0-9][0-9].py | sed 's/.*\(c[0-9][0-9]\).py/\1/' | tr a-z A-Z | xargs -P $N -I{} bash -c 'start=$(date +%s); ./check {} --tier '$TIER' > /var/tmp/verif-runall/{}.log 2>&1; rc=$?; end=$(date +%s); echo "{} rc=$rc $((end-start))s $(grep -c ^KNOWN-FINDING /var/tmp/verif-runall/{}.log) known | $(grep -E "^(OK|VIOLATION|INCONCLUSIVE)" /var/tmp/verif-runall/{}.log | head -2 | tr "\n" " " | cut -c1-200)"'
