#!/bin/bash
# tools_seed2.sh <ID> <suffix> <srcdir>: confirm a seeded change left by a sub-agent in <srcdir> (patch.diff + tests/demo_<id>.rs):
# suite passes / demo fails with it, demo passes without it (fresh worktree of /repo HEAD); store under /verif/seeded/<ID><suffix>/;
# run the property's quick check against a scratch copy of /repo with the patch applied (VERIF_REPO), so several can run at once
# and /repo itself is never touched.
set -u
ID=$1; SUF=$2; W=$3; LID=$(echo $ID | tr A-Z a-z)
D=/verif/seeded/$ID$SUF
mkdir -p $D
cp $W/patch.diff $D/patch.diff
cp $W/tests/demo_$LID.rs $D/demo_$LID.rs
export CARGO_TARGET_DIR=/var/tmp/verif-seedconfirm/$ID$SUF/target CARGO_NET_OFFLINE=true
S=/var/tmp/verif-seedconfirm/$ID$SUF/wt; rm -rf /var/tmp/verif-seedconfirm/$ID$SUF; mkdir -p /var/tmp/verif-seedconfirm/$ID$SUF
git -C /repo worktree add -q --detach $S HEAD
mkdir -p $S/tests; cp $D/demo_$LID.rs $S/tests/
cd $S
base_demo=$(cargo test --offline --test demo_$LID 2>&1 | grep -E "^test result" | tail -1)
git apply $D/patch.diff || { echo "PATCH DOES NOT APPLY"; exit 1; }
suite=$(cargo test --offline --lib 2>&1 | grep -E "^test result" | tail -1)
mut_demo=$(cargo test --offline --test demo_$LID 2>&1 | grep -E "^test result" | tail -1)
cd /verif
git -C /repo worktree remove --force $S
R=/var/tmp/verif-seedconfirm/$ID$SUF/run; mkdir -p $R
rsync -a --exclude /target --exclude /website /repo/ $R/repo/
git -C $R/repo apply $D/patch.diff
out=$(VERIF_REPO=$R/repo VERIF_EVIDENCE_DIR=$R/evidence ./check $ID --tier quick 2>&1 | grep -E "^(VIOLATION|OK|INCONCLUSIVE|  class)" | head -6)
echo "== $ID$SUF"
echo "suite with change:  $suite"
echo "demo without change: $base_demo"
echo "demo with change:    $mut_demo"
echo "check on seeded tree: $out" | cut -c1-400
python3 - "$ID" "$SUF" "$suite" "$base_demo" "$mut_demo" "$out" <<'PY'
import json, sys
id, suf, suite, base, mut, out = sys.argv[1:7]
p = "/verif/seeded/%s%s/meta.json" % (id, suf)
try:
    m = json.load(open(p))
except Exception:
    m = {}
m.update(property=id, suite_with_change=suite, demo_without_change=base, demo_with_change=mut,
         ran=["cargo test --offline --lib (patched worktree of /repo HEAD)", "cargo test --offline --test demo (patched and unpatched)",
              "scratch copy of /repo + patch.diff; VERIF_REPO=<copy> ./check %s --tier quick" % id],
         check_output=out.splitlines(), detected=("VIOLATION" in out))
json.dump(m, open(p, "w"), indent=1)
PY
rm -rf /var/tmp/verif-seedconfirm/$ID$SUF
