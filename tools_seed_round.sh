#!/bin/bash
# tools_seed_round.sh <rounddir> <suffix> [N]: confirm every seed found in <rounddir>/<ID>/patch.diff with tools_seed2.sh, N at a time
R=$1; SUF=$2; N=${3:-5}
cd "$(dirname "$0")"
ls $R/*/patch.diff 2>/dev/null | sed 's#.*/\(C[0-9][0-9]\)/patch.diff#\1#' | xargs -P $N -I{} bash -c "./tools_seed2.sh {} $SUF $R/{} > $R/{}.confirm.log 2>&1; grep -E '^==|check on' $R/{}.confirm.log | tr '\n' ' ' | cut -c1-220; echo"
