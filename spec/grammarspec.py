# Specification of find's operator grammar (property C01) as declarative CYK-style tables over
# token-kind terms.  Nothing here mirrors precedence climbing: the tables define, for every span,
# whether it derives ATOM / AND / OR / LIST and which tree it denotes.
#
#   LIST := OR  | LIST ',' OR          (left associative, lowest precedence)
#   OR   := AND | OR '-o' AND
#   AND  := ATOM | AND ['-a'] ATOM     (explicit or implicit)
#   ATOM := primary | '!' ATOM | '(' LIST ')'
import z3

KINDS = ["LParen", "RParen", "Not", "Comma", "And", "Or", "True", "False", "Print"]
K = {k: i for i, k in enumerate(KINDS)}
PRIMARIES = ("True", "False", "Print")

Exp = z3.Datatype("Exp")
Exp.declare("leaf", ("kind", z3.IntSort()))
Exp.declare("not_", ("n0", Exp))
Exp.declare("and_", ("a0", Exp), ("a1", Exp))
Exp.declare("or_", ("o0", Exp), ("o1", Exp))
Exp.declare("list_", ("l0", Exp), ("l1", Exp))
Exp = Exp.create()
DUMMY = Exp.leaf(-1)


def tables(kinds):
    """kinds: list of z3 Int terms (token kind per position).
    returns dict with derivability predicates D[nt][(i,j)] and trees T[nt][(i,j)], plus the list of
    uniqueness obligations (pairs of mutually exclusive derivation guards)."""
    n = len(kinds)
    D = {nt: {} for nt in ("ATOM", "AND", "OR", "LIST")}
    T = {nt: {} for nt in ("ATOM", "AND", "OR", "LIST")}
    excl = []

    def is_(i, name):
        return kinds[i] == K[name]

    def choose(options):
        """options: [(guard, tree)] -> (any, tree as nested ite), records pairwise exclusion obligations"""
        options = [(g, t) for g, t in options if not z3.is_false(g)]
        if not options:
            return z3.BoolVal(False), DUMMY
        for a in range(len(options)):
            for b in range(a + 1, len(options)):
                excl.append(z3.And(options[a][0], options[b][0]))
        any_ = z3.Or(*[g for g, _ in options]) if len(options) > 1 else options[0][0]
        tree = options[-1][1]
        for g, t in reversed(options[:-1]):
            tree = z3.If(g, t, tree)
        return any_, tree

    for span in range(1, n + 1):
        for i in range(0, n - span + 1):
            j = i + span
            # ATOM
            opts = []
            if span == 1:
                for p in PRIMARIES:
                    opts.append((is_(i, p), Exp.leaf(K[p])))
            if span >= 2:
                opts.append((z3.And(is_(i, "Not"), D["ATOM"][(i + 1, j)]), Exp.not_(T["ATOM"][(i + 1, j)])))
            if span >= 3:
                opts.append((z3.And(is_(i, "LParen"), is_(j - 1, "RParen"), D["LIST"][(i + 1, j - 1)]), T["LIST"][(i + 1, j - 1)]))
            D["ATOM"][(i, j)], T["ATOM"][(i, j)] = choose(opts)
            # AND
            opts = [(D["ATOM"][(i, j)], T["ATOM"][(i, j)])]
            for k in range(i + 1, j):
                opts.append((z3.And(D["AND"][(i, k)], D["ATOM"][(k, j)]), Exp.and_(T["AND"][(i, k)], T["ATOM"][(k, j)])))
                if k + 1 < j:
                    opts.append((z3.And(D["AND"][(i, k)], is_(k, "And"), D["ATOM"][(k + 1, j)]),
                                 Exp.and_(T["AND"][(i, k)], T["ATOM"][(k + 1, j)])))
            D["AND"][(i, j)], T["AND"][(i, j)] = choose(opts)
            # OR
            opts = [(D["AND"][(i, j)], T["AND"][(i, j)])]
            for k in range(i + 1, j - 1):
                opts.append((z3.And(D["OR"][(i, k)], is_(k, "Or"), D["AND"][(k + 1, j)]), Exp.or_(T["OR"][(i, k)], T["AND"][(k + 1, j)])))
            D["OR"][(i, j)], T["OR"][(i, j)] = choose(opts)
            # LIST
            opts = [(D["OR"][(i, j)], T["OR"][(i, j)])]
            for k in range(i + 1, j - 1):
                opts.append((z3.And(D["LIST"][(i, k)], is_(k, "Comma"), D["OR"][(k + 1, j)]), Exp.list_(T["LIST"][(i, k)], T["OR"][(k + 1, j)])))
            D["LIST"][(i, j)], T["LIST"][(i, j)] = choose(opts)
    return D, T, excl
