# Specification-side scanner for find's -printf mini-language (property C14), written from the
# documented tables (doc comments of FormatSpecial / FormatField in src/ast.rs and find(1)); it is a
# left-to-right segmentation over symbolic code points and shares nothing with the winnow parser.
import z3
from mirsym.values import *

ERR = Adt("Spec", "Error")
SILENT = Adt("Spec", "Silent")        # the statement does not fix the result for this input

ONE_CHAR = {
    "%": "Percent", "a": "Access", "b": "DiskSizeBlocks", "c": "Change", "d": "Depth", "D": "DeviceNumber",
    "f": "Basename", "F": "FsType", "g": "Group", "G": "GroupId", "h": "Parents", "H": "StartingPoint",
    "i": "InodeDecimal", "k": "DiskSizeKilos", "l": "SymbolicTarget", "m": "PermissionsOctal",
    "M": "PermissionsSymbolic", "n": "Hardlinks", "p": "Name", "P": "NameWithoutStartingPoint",
    "s": "DiskSizeBytes", "S": "Sparseness", "t": "Modify", "u": "User", "U": "UserId", "y": "Type",
    "Y": "TypeSymlink", "Z": "SecurityContext",
}
WITH_ARG = {"A": "AccessFormatted", "C": "ChangeFormatted", "T": "ModifyFormatted"}
BRACED = {"fid": "FileId", "projid": "ProjectId", "mirror-count": "MirrorCount", "stripe-count": "StripeCount",
          "stripe-size": "StripeSize"}
ESCAPES = {"a": "Alarm", "b": "Backspace", "c": "Clear", "f": "Form", "n": "Newline", "r": "CarriageReturn",
           "t": "TabHorizontal", "v": "TabVertical", "0": "Null", "\\": "Backslash"}


def ceq(c, ch):
    k = ord(ch)
    if isinstance(c, int):
        return c == k
    return c == z3.BitVecVal(k, 32)


def is_oct(c):
    if isinstance(c, int):
        return 48 <= c <= 55
    return z3.And(z3.UGE(c, 48), z3.ULE(c, 55))


def is_alpha(c):
    if isinstance(c, int):
        return 65 <= c <= 90 or 97 <= c <= 122
    return z3.Or(z3.And(z3.UGE(c, 65), z3.ULE(c, 90)), z3.And(z3.UGE(c, 97), z3.ULE(c, 122)))


def field(name, *args):
    return Adt("FormatElement", "Field", [Adt("FormatField", name, list(args))])


def special(name, *args):
    return Adt("FormatElement", "Special", [Adt("FormatSpecial", name, list(args))])


def oct_val(ds):
    """value of octal digit terms as a 16-bit term (3 digits never overflow)"""
    if all(isinstance(d, int) for d in ds):
        v = 0
        for d in ds:
            v = v * 8 + (d - 48)
        return v
    acc = z3.BitVecVal(0, 16)
    for d in ds:
        dv = z3.BitVecVal(d - 48, 16) if isinstance(d, int) else z3.Extract(15, 0, d) - 48
        acc = acc * 8 + dv
    return acc


def scan(chars, deviations=()):
    """chars: list of code-point terms.  -> [(guard, VecV(elements) | ERR | SILENT)]
    deviations: names of known deviations of the implementation to reproduce:
       'octal-greedy'  an octal escape swallows every following octal digit (panics past u16)
       'no-formfeed'   \\f is not an escape"""
    n = len(chars)
    memo = {}

    def go(i):
        # -> [(guard, tuple of tokens | ERR | SILENT)]; token = ('ch', term) | element Adt
        if i in memo:
            return memo[i]
        if i == n:
            return [(True, ())]
        c = chars[i]
        res = []
        pct, bsl = ceq(c, "%"), ceq(c, "\\")
        # ---- ordinary character
        g_plain = b_and(b_not(pct), b_not(bsl))
        if g_plain is not False:
            for g, rest in go(i + 1):
                res.append((b_and(g_plain, g), rest if isinstance(rest, Adt) else (("ch", c),) + rest))
        # ---- directive
        if pct is not False:
            if i + 1 == n:
                res.append((pct, ERR))
            else:
                d = chars[i + 1]
                known = False
                for ch, name in ONE_CHAR.items():
                    g1 = ceq(d, ch)
                    known = b_or(known, g1)
                    if g1 is False:
                        continue
                    for g, rest in go(i + 2):
                        res.append((b_and(pct, g1, g), rest if isinstance(rest, Adt) else (field(name),) + rest))
                for ch, name in WITH_ARG.items():
                    g1 = ceq(d, ch)
                    known = b_or(known, g1)
                    if g1 is False:
                        continue
                    if i + 2 == n:
                        res.append((b_and(pct, g1), ERR))
                    else:
                        for g, rest in go(i + 3):
                            res.append((b_and(pct, g1, g), rest if isinstance(rest, Adt) else (field(name, chars[i + 2]),) + rest))
                gb = ceq(d, "{")
                known = b_or(known, gb)
                if gb is not False:
                    matched = False
                    for word, name in BRACED.items():
                        w = word + "}"
                        if i + 2 + len(w) <= n:
                            gw = b_and(*[ceq(chars[i + 2 + j], w[j]) for j in range(len(w))])
                            matched = b_or(matched, gw)
                            if gw is not False:
                                for g, rest in go(i + 2 + len(w)):
                                    res.append((b_and(pct, gb, gw, g), rest if isinstance(rest, Adt) else (field(name),) + rest))
                    # %{xattr:NAME}
                    px = "xattr:"
                    if i + 2 + len(px) + 2 <= n:
                        gx = b_and(*[ceq(chars[i + 2 + j], px[j]) for j in range(len(px))])
                        if gx is not False:
                            start = i + 2 + len(px)
                            run = True
                            for e in range(start, n):
                                ce = chars[e]
                                if e > start:
                                    ge = b_and(gx, run, ceq(ce, "}"))
                                    matched = b_or(matched, ge)
                                    if ge is not False:
                                        nm = StringV(chars[start:e])
                                        for g, rest in go(e + 1):
                                            res.append((b_and(pct, gb, ge, g), rest if isinstance(rest, Adt) else (field("XAttr", nm),) + rest))
                                # a name with non-alphabetic characters: the documented language of NAME is not fixed
                                gna = b_and(gx, run, b_not(is_alpha(ce)), b_not(ceq(ce, "}")))
                                matched = b_or(matched, gna)
                                if gna is not False:
                                    res.append((b_and(pct, gb, gna), SILENT))
                                run = b_and(run, is_alpha(ce))
                    res.append((b_and(pct, gb, b_not(matched)), ERR))
                res.append((b_and(pct, b_not(known)), ERR))
        # ---- escape
        if bsl is not False:
            handled = False
            if i + 1 < n:
                d1 = chars[i + 1]
                o1 = is_oct(d1)
                # three octal digits
                if i + 4 <= n:
                    d2, d3 = chars[i + 2], chars[i + 3]
                    g3 = b_and(o1, is_oct(d2), is_oct(d3))
                else:
                    g3 = False
                if g3 is not False:
                    if "octal-greedy" in deviations:
                        # the implementation keeps eating octal digits
                        run = g3
                        for e in range(i + 4, n + 1):
                            stop = True if e == n else b_not(is_oct(chars[e]))
                            ge = b_and(run, stop)
                            if ge is not False:
                                ds = chars[i + 1:e]
                                if len(ds) > 5:
                                    # more than 15 bits may overflow u16: the implementation panics (C03's subject)
                                    res.append((b_and(bsl, ge), SILENT))
                                else:
                                    wide = z3.BitVecVal(0, 24)
                                    for dd in ds:
                                        dv = z3.BitVecVal(dd - 48, 24) if isinstance(dd, int) else z3.ZeroExt(0, z3.Extract(23, 0, dd)) - 48
                                        wide = wide * 8 + dv
                                    fits = z3.ULT(wide, 1 << 16)
                                    for g, rest in go(e):
                                        res.append((b_and(bsl, ge, fits, g), rest if isinstance(rest, Adt) else (special("Ascii", z3.Extract(15, 0, wide)),) + rest))
                                    res.append((b_and(bsl, ge, b_not(fits)), SILENT))
                            if e < n:
                                run = b_and(run, is_oct(chars[e]))
                    else:
                        for g, rest in go(i + 4):
                            res.append((b_and(bsl, g3, g), rest if isinstance(rest, Adt) else (special("Ascii", oct_val([d1, d2, d3])),) + rest))
                    handled = b_or(handled, g3)
                # one or two octal digits: "\0" alone is NUL; other short octal forms are not fixed by the statement
                g_short = b_and(o1, b_not(g3))
                if g_short is not False:
                    nxt_oct = is_oct(chars[i + 2]) if i + 2 < n else False
                    g_nul = b_and(g_short, ceq(d1, "0"), b_not(nxt_oct))
                    if g_nul is not False:
                        for g, rest in go(i + 2):
                            res.append((b_and(bsl, g_nul, g), rest if isinstance(rest, Adt) else (special("Null"),) + rest))
                    res.append((b_and(bsl, g_short, b_not(g_nul)), SILENT))
                    handled = b_or(handled, g_short)
                for ch, name in ESCAPES.items():
                    if ch == "0":
                        continue
                    if ch == "f" and "no-formfeed" in deviations:
                        continue
                    g1 = b_and(ceq(d1, ch), b_not(o1))
                    if g1 is False:
                        continue
                    handled = b_or(handled, g1)
                    for g, rest in go(i + 2):
                        res.append((b_and(bsl, g1, g), rest if isinstance(rest, Adt) else (special(name),) + rest))
            # a backslash before any other character (or at the end) stands for itself
            g_self = b_and(bsl, b_not(handled))
            if g_self is not False:
                for g, rest in go(i + 1):
                    res.append((b_and(g_self, g), rest if isinstance(rest, Adt) else (special("Backslash"),) + rest))
        res = [(g, v) for g, v in res if g is not False]
        memo[i] = res
        return res

    out = []
    for g, toks in go(0):
        if isinstance(toks, Adt):
            out.append((g, toks))
            continue
        elems = []
        run = []
        for t in toks:
            if isinstance(t, tuple) and t and t[0] == "ch":
                run.append(t[1])
            else:
                if run:
                    elems.append(Adt("FormatElement", "Literal", [StringV(run)]))
                    run = []
                elems.append(t)
        if run:
            elems.append(Adt("FormatElement", "Literal", [StringV(run)]))
        out.append((g, VecV(elems)))
    return out
