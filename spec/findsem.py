# Specification side of C02/C09/C10: what a find expression MEANS on one file, written from find(1)
# and the project's documented choices (',' is AND; time tests use the compile-time clock and truncating
# division; sizes round up to the unit).  Works on the tree values of Engine M (Adt, possibly with
# symbolic numbers) and the symbolic file record of scheme/eval.py.
import z3
from mirsym.values import *
from scheme.eval import FileRec, num, NW, udiv_const

S_IFMT = 0o170000
TYPE_BITS = {"Block": 0o060000, "Character": 0o020000, "Directory": 0o040000, "Pipe": 0o010000, "File": 0o100000,
             "Link": 0o120000, "Socket": 0o140000}
SIZE_UNIT = {"Byte": 1, "Word": 2, "Block": 512, "KiloByte": 1 << 10, "MegaByte": 1 << 20, "GigaByte": 1 << 30, "TeraByte": 1 << 40}
TIME_UNIT = {"Second": 1, "Minute": 60, "Hour": 3600, "Day": 86400}
SPECIAL_CHARS = {"Alarm": 7, "Backspace": 8, "Form": 12, "Newline": 10, "CarriageReturn": 13, "TabHorizontal": 9,
                 "TabVertical": 11, "Null": 0, "Backslash": 92}
WILDCARDS = set(map(ord, "*?[\\"))


class Unsupported(Exception):
    pass


class Undefined(Exception):
    """the expression has no defined meaning on (some) files: the statement does not constrain it"""


def to_int(v):
    return num(v)


def cmp_(cmp, lhs):
    """Comparison<T> value -> (guard over lhs, payload)"""
    n = cmp.fields[0]
    return cmp.variant, n


def apply_cmp(kind, lhs, rhs):
    lhs, rhs = num(lhs), num(rhs)
    return {"GreaterThan": lhs > rhs, "LesserThan": lhs < rhs, "Equal": lhs == rhs}[kind]


def str_key(s):
    items = s.items if isinstance(s, StringV) else s
    return ("str", tuple(items))


class Sem:
    def __init__(self, frec, clock):
        self.f = frec
        # the instant(s) at which the expression was compiled: one reading per time test, in evaluation order
        self.clocks = list(clock) if isinstance(clock, (list, tuple)) else [clock]
        self.clock_i = 0
        self.outputs = []            # dict(guard, dest, payload, term)
        self.stop = False
        self.undefined = False       # guard under which the expression is not defined (e.g. sparseness of empty file)

    def eval(self, e, g):
        """truth of expression e on the file, evaluated under guard g (for side effects)"""
        if isinstance(e, (BoxV, ValRef)):
            return self.eval(e.v, g)
        if isinstance(e, Union):
            raise Unsupported("union tree in specification evaluator")
        if e.ty == "Expression":
            if e.variant == "Operator":
                return self.eval(e.fields[0], g)
            if e.variant == "Test":
                return self.test(e.fields[0], g)
            if e.variant == "Action":
                return self.action(e.fields[0], g)
            raise Unsupported("node %s has no find meaning" % e.variant)
        if e.ty == "Operator":
            v = e.variant
            if v in ("And", "List"):
                a = self.eval(e.fields[0], g)
                b = self.eval(e.fields[1], b_and(g, a))
                return b_and(a, b)
            if v == "Or":
                a = self.eval(e.fields[0], g)
                b = self.eval(e.fields[1], b_and(g, b_not(a)))
                return b_or(a, b)
            if v == "Not":
                return b_not(self.eval(e.fields[0], g))
            if v == "Precedence":
                return self.eval(e.fields[0], g)
        raise Unsupported("cannot evaluate %r" % (e,))

    # ------------------------------------------------------------------ tests
    def test(self, t, g):
        f = self.f
        v = t.variant
        if v == "True":
            return True
        if v == "False":
            return False
        if v in ("Empty", "Executable", "Readable", "Writable"):
            return f.bools[v.lower()]
        simple = {"GroupId": "gid", "UserId": "uid", "InodeNumber": "ino", "Links": "nlink", "MirrorCount": "lov-mirror-count",
                  "StripeCount": "lov-stripe-count"}
        if v in simple:
            kind, n = cmp_(t.fields[0], None)
            return apply_cmp(kind, f.ints[simple[v]], to_int(n))
        if v in ("AccessTime", "ChangeTime", "ModifyTime"):
            field = {"AccessTime": "atime", "ChangeTime": "ctime", "ModifyTime": "mtime"}[v]
            kind, ts = cmp_(t.fields[0], None)
            unit = TIME_UNIT[ts.variant]
            n = to_int(ts.fields[0])
            clk = self.clocks[min(self.clock_i, len(self.clocks) - 1)]
            self.clock_i += 1
            age = clk - f.ints[field]
            # the file's timestamp is assumed not to lie in the future of the compile-time clock
            return apply_cmp(kind, udiv_const(age, unit), n)
        if v == "Size":
            kind, sz = cmp_(t.fields[0], None)
            unit = SIZE_UNIT[sz.variant]
            n = to_int(sz.fields[0])
            if unit == 1:
                return apply_cmp(kind, f.ints["size"], n)
            units_used = udiv_const(f.ints["size"] + (unit - 1), unit)          # rounded up
            return apply_cmp(kind, units_used, n)
        if v == "Type":
            types = t.fields[0].items
            return b_or(*[(f.mode & S_IFMT) == TYPE_BITS[x.variant] for x in types])
        if v == "Perm":
            chk = t.fields[0]
            bits = chk.fields[0].fields[0].fields[0]
            bits = z3.BitVecVal(bits, 32) if isinstance(bits, int) else bits
            if chk.variant == "Equal":
                return (f.mode & 0o7777) == bits
            if chk.variant == "AtLeast":
                return (f.mode & bits) == bits
            return (f.mode & bits) != 0
        if v in ("Name", "Path", "InsensitiveName", "InsensitivePath"):
            pat = t.fields[0]
            subject = ("attr", "name") if "Name" in v else ("attr", "relative-path")
            ci = v.startswith("Insensitive")
            return f.pred("fnmatch-ci?" if ci else "fnmatch?", str_key(pat), subject)
        if v == "Pool":
            return f.pred("member", str_key(t.fields[0]), ("attr", "lov-pools"))
        if v == "Xattr":
            return f.pred("xattr?", str_key(t.fields[0]))
        if v == "XattrMatch":
            name, val = t.fields
            return f.pred("xattr-value-matches", str_key(name), str_key(val))
        raise Unsupported("test %s" % v)

    # ------------------------------------------------------------------ actions
    def out(self, g, dest, payload, term):
        self.outputs.append(dict(guard=g, dest=dest, payload=list(payload), term=term))

    def action(self, a, g):
        v = a.variant
        rel = [("attr", "relative-path")]
        if v in ("Print", "DefaultPrint"):
            self.out(g, ("stdout",), rel, 10)
        elif v == "PrintNull":
            self.out(g, ("stdout",), rel, 0)
        elif v == "FilePrint":
            self.out(g, ("file", str_key(a.fields[0])[1]), rel, 10)
        elif v == "FilePrintNull":
            self.out(g, ("file", str_key(a.fields[0])[1]), rel, 0)
        elif v == "PrintFormatted":
            self.out(g, ("stdout",), self.render(a.fields[0], g), None)
        elif v == "FilePrintFormatted":
            self.out(g, ("file", str_key(a.fields[0])[1]), self.render(a.fields[1], g), None)
        elif v == "PrintFid":
            self.out(g, ("stdout",), [("attr", "file-fid")], 10)
        elif v == "Quit":
            self.stop = b_or(self.stop, g)
        else:
            raise Unsupported("action %s" % v)
        return True

    # ------------------------------------------------------------------ -printf rendering
    FIELD = {
        "Percent": lambda f: [ord("%")],
        "Name": lambda f: [("arg", "a", ("attr", "absolute-path"))],
        "NameWithoutStartingPoint": lambda f: [("arg", "a", ("attr", "relative-path"))],
        "Basename": lambda f: [("arg", "a", ("attr", "name"))],
        "User": lambda f: [("arg", "a", ("attr", "user"))],
        "Group": lambda f: [("arg", "a", ("attr", "group"))],
        "FileId": lambda f: [("arg", "a", ("attr", "file-fid"))],
        "StartingPoint": lambda f: [("arg", "a", ("attr", "lipe-scan-client-mount-path"))],
        "UserId": lambda f: [("arg", "d", ("int", f.ints["uid"]))],
        "GroupId": lambda f: [("arg", "d", ("int", f.ints["gid"]))],
        "InodeDecimal": lambda f: [("arg", "d", ("int", f.ints["ino"]))],
        "Hardlinks": lambda f: [("arg", "d", ("int", f.ints["nlink"]))],
        "DiskSizeBytes": lambda f: [("arg", "d", ("int", f.ints["size"]))],
        "DiskSizeBlocks": lambda f: [("arg", "d", ("int", f.ints["blocks"]))],
        "DiskSizeKilos": lambda f: [("arg", "d", ("int", udiv_const(f.ints["blocks"] + 1, 2)))],
        "ProjectId": lambda f: [("arg", "d", ("int", f.ints["projid"]))],
        "StripeCount": lambda f: [("arg", "d", ("int", f.ints["lov-stripe-count"]))],
        "StripeSize": lambda f: [("arg", "d", ("int", f.ints["lov-stripe-size"]))],
        "MirrorCount": lambda f: [("arg", "d", ("int", f.ints["lov-mirror-count"]))],
        "PermissionsOctal": lambda f: [("arg", "o", ("int", num(f.mode & 0o7777)))],
        "Access": lambda f: [("arg", "a", ("int", f.ints["atime"]))],
        "Change": lambda f: [("arg", "a", ("int", f.ints["ctime"]))],
        "Modify": lambda f: [("arg", "a", ("int", f.ints["mtime"]))],
    }

    def render(self, fmt, g):
        out = []
        for el in fmt.items:
            k = el.variant
            if k == "Literal":
                out.extend(el.fields[0].items)
            elif k == "Special":
                sp = el.fields[0]
                if sp.variant == "Ascii":
                    out.append(("chr", sp.fields[0]))
                elif sp.variant == "Clear":
                    out.append(("stop-output",))
                else:
                    out.append(SPECIAL_CHARS[sp.variant])
            else:
                fld = el.fields[0]
                if fld.variant in self.FIELD:
                    out.extend(self.FIELD[fld.variant](self.f))
                elif fld.variant in ("AccessFormatted", "ChangeFormatted", "ModifyFormatted"):
                    attr = {"A": "atime", "C": "ctime", "M": "mtime"}[fld.variant[0]]
                    c = fld.fields[0]
                    if c == ord("@"):
                        out.append(("arg", "d", ("int", self.f.ints[attr])))
                    else:
                        out.append(("arg", "a", ("strftime", c, attr)))
                elif fld.variant == "XAttr":
                    out.append(("arg", "a", ("xattr-or-empty", str_key(fld.fields[0]))))
                elif fld.variant == "Sparseness":
                    self.undefined = b_or(self.undefined, b_and(g, self.f.ints["size"] == num(0)))
                    out.append(("arg", "f", ("ratio", 512 * self.f.ints["blocks"], self.f.ints["size"])))
                elif fld.variant in ("Type", "Parents"):
                    out.append(("arg", "a", ("derived", fld.variant)))
                else:
                    raise Unsupported("format field %s" % fld.variant)
        return out


def has_action(e):
    """does the tree contain an action node (specification side, by structural recursion)"""
    if isinstance(e, (BoxV, ValRef)):
        return has_action(e.v)
    if isinstance(e, Adt):
        if e.ty == "Expression" and e.variant == "Action":
            return True
        if e.ty in ("Expression", "Operator"):
            return any(has_action(x) for x in e.fields)
    return False
