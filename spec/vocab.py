# Specification-side vocabulary of the find dialect accepted by lipe-find-parser (property C05), written from
# find(1) / the LiPE documentation: keyword -> tree node constructor -> argument language with valuation.
# Argument recognisers work on a list of code-point terms (symbolic or concrete) of known length and return
# guarded alternatives [(guard, value)]; everything not listed is "not in the language".
import z3
from mirsym.values import *

# keyword: (category, node variant, argument kind)
VOCAB = {
    "-amin": ("Test", "AccessTime", ("time", "Minute")), "-anewer": ("Test", "AccessNewer", "str"), "-atime": ("Test", "AccessTime", ("time", "Day")),
    "-cmin": ("Test", "ChangeTime", ("time", "Minute")), "-cnewer": ("Test", "ChangeNewer", "str"), "-ctime": ("Test", "ChangeTime", ("time", "Day")),
    "-empty": ("Test", "Empty", None), "-executable": ("Test", "Executable", None), "-false": ("Test", "False", None),
    "-fstype": ("Test", "FsType", "str"), "-gid": ("Test", "GroupId", "u32cmp"), "-group": ("Test", "Group", "str"),
    "-ilname": ("Test", "InsensitiveLinkName", "str"), "-iname": ("Test", "InsensitiveName", "str"), "-inum": ("Test", "InodeNumber", "u32cmp"),
    "-ipath": ("Test", "InsensitivePath", "str"), "-iregex": ("Test", "InsensitiveRegex", "str"), "-links": ("Test", "Links", "u64cmp"),
    "-mirror-count": ("Test", "MirrorCount", "u32cmp"), "-mmin": ("Test", "ModifyTime", ("time", "Minute")), "-mnewer": ("Test", "ModifyNewer", "str"),
    "-mtime": ("Test", "ModifyTime", ("time", "Day")), "-name": ("Test", "Name", "str"), "-nouser": ("Test", "NoUser", None),
    "-nogroup": ("Test", "NoGroup", None), "-path": ("Test", "Path", "str"), "-perm": ("Test", "Perm", "perm"), "-pool": ("Test", "Pool", "str"),
    "-readable": ("Test", "Readable", None), "-regex": ("Test", "Regex", "str"), "-samefile": ("Test", "Samefile", "str"),
    "-size": ("Test", "Size", "size"), "-stripe-count": ("Test", "StripeCount", "u32cmp"), "-true": ("Test", "True", None),
    "-type": ("Test", "Type", "types"), "-uid": ("Test", "UserId", "u32cmp"), "-user": ("Test", "User", "str"),
    "-xattr-match": ("Test", "XattrMatch", "str str"), "-xattr": ("Test", "Xattr", "str"), "-writable": ("Test", "Writable", None),
    "-fls": ("Action", "FileList", "str"), "-fprintf": ("Action", "FilePrintFormatted", "str format"), "-fprint0": ("Action", "FilePrintNull", "str"),
    "-fprint": ("Action", "FilePrint", "str"), "-ls": ("Action", "List", None), "-print-file-fid": ("Action", "PrintFid", None),
    "-printf": ("Action", "PrintFormatted", "format"), "-print0": ("Action", "PrintNull", None), "-print": ("Action", "Print", None),
    "-prune": ("Action", "Prune", None), "-quit": ("Action", "Quit", None),
    "-depth": ("Global", "Depth", None), "-maxdepth": ("Global", "MaxDepth", "u32"), "-mindepth": ("Global", "MinDepth", "u32"),
    "-threads": ("Global", "Threads", "u32"),
}
OPERATOR_WORDS = ["(", ")", "!", ",", "-a", "-and", "-o", "-or"]
NULLARY = [k for k, v in VOCAB.items() if v[2] is None]
SIZE_UNITS = {"b": "Block", "c": "Byte", "w": "Word", "k": "KiloByte", "M": "MegaByte", "G": "GigaByte", "T": "TeraByte"}
TIME_UNITS = {"s": "Second", "m": "Minute", "h": "Hour", "d": "Day"}
TYPES = {"b": "Block", "c": "Character", "d": "Directory", "p": "Pipe", "f": "File", "l": "Link", "s": "Socket"}
NOT_IN_LANGUAGE = Adt("Spec", "NotInLanguage")


def ceq(c, ch):
    k = ord(ch)
    return (c == k) if isinstance(c, int) else (c == z3.BitVecVal(k, 32))


def is_digit(c):
    return (48 <= c <= 57) if isinstance(c, int) else z3.And(z3.UGE(c, 48), z3.ULE(c, 57))


def is_oct(c):
    return (48 <= c <= 55) if isinstance(c, int) else z3.And(z3.UGE(c, 48), z3.ULE(c, 55))


def one_of(c, chars):
    return b_or(*[ceq(c, x) for x in chars])


def dec_value(ds, bits):
    if all(isinstance(d, int) for d in ds):
        return int("".join(chr(d) for d in ds))
    acc = z3.BitVecVal(0, bits)
    for d in ds:
        dv = z3.BitVecVal(d - 48, bits) if isinstance(d, int) else (z3.ZeroExt(bits - 32, d) if bits > 32 else z3.Extract(bits - 1, 0, d)) - 48
        acc = acc * 10 + dv
    return acc


WIDE = 96


def wide_value(cs):
    acc = z3.BitVecVal(0, WIDE)
    for d in cs:
        dv = z3.BitVecVal(d - 48, WIDE) if isinstance(d, int) else z3.ZeroExt(WIDE - 32, d) - 48
        acc = acc * 10 + dv
    return acc


def number(cs, bits):
    """digits only, value must fit the type -> [(guard, value)]"""
    if not cs or len(cs) > 24:
        return []
    if len(cs) <= (9 if bits == 32 else 19):
        return [(b_and(*[is_digit(c) for c in cs]), dec_value(cs, bits))]
    if all(isinstance(d, int) for d in cs):
        v = int("".join(chr(d) for d in cs)) if all(48 <= d <= 57 for d in cs) else None
        return [(True, v)] if v is not None and v < (1 << bits) else []
    V = wide_value(cs)
    fits = z3.ULT(V, z3.BitVecVal(1 << bits, WIDE))
    return [(b_and(*[is_digit(c) for c in cs], fits), z3.Extract(bits - 1, 0, V))]


def signed(cs, inner):
    """[+|-]inner -> [(guard, Comparison value)]"""
    out = []
    for g, v in inner(cs):
        out.append((g, Adt("Comparison", "Equal", [v])))
    if len(cs) >= 2:
        for sign, kind in (("+", "GreaterThan"), ("-", "LesserThan")):
            for g, v in inner(cs[1:]):
                out.append((b_and(ceq(cs[0], sign), g), Adt("Comparison", kind, [v])))
    return out


SIZE_MULT = {"Block": 512, "Byte": 1, "Word": 2, "KiloByte": 1 << 10, "MegaByte": 1 << 20, "GigaByte": 1 << 30, "TeraByte": 1 << 40}


def size_fits(v, name):
    """a size is in the language only if count x unit fits 64 bits"""
    m = SIZE_MULT[name]
    if isinstance(v, int):
        return v * m < (1 << 64)
    return z3.ULT(z3.ZeroExt(64, v) * z3.BitVecVal(m, 128), z3.BitVecVal(1 << 64, 128))


def with_unit(cs, units, default, ty):
    out = []
    for g, v in number(cs, 64):
        out.append((b_and(g, size_fits(v, default)) if ty == "Size" else g, Adt(ty, default, [v])))
    if len(cs) >= 2:
        for g, v in number(cs[:-1], 64):
            for u, name in units.items():
                gg = b_and(g, ceq(cs[-1], u))
                if ty == "Size":
                    gg = b_and(gg, size_fits(v, name))
                out.append((gg, Adt(ty, name, [v])))
    return out


def types(cs):
    """letter(,letter)*"""
    if len(cs) % 2 == 0:
        return []
    n = (len(cs) + 1) // 2
    g = True
    for i in range(1, len(cs), 2):
        g = b_and(g, ceq(cs[i], ","))
    alts = [(g, [])]
    for i in range(0, len(cs), 2):
        nxt = []
        for g0, acc in alts:
            for ch, name in TYPES.items():
                gg = b_and(g0, ceq(cs[i], ch))
                if gg is not False:
                    nxt.append((gg, acc + [Adt("FileType", name)]))
        alts = nxt
    return [(g_, VecV(v)) for g_, v in alts]


def perm_bits(cs):
    """octal{3,4} | clause(,clause)*  -> [(guard, 32-bit mode term)]"""
    out = []
    if len(cs) in (3, 4):
        v = z3.BitVecVal(0, 32)
        for c in cs:
            v = v * 8 + ((z3.BitVecVal(c - 48, 32)) if isinstance(c, int) else (c - 48))
        out.append((b_and(*[is_oct(c) for c in cs]), v))
    # clause lists: split at commas (positions symbolic -> enumerate all splits)
    n = len(cs)

    def clause(seg):
        res = []
        for i in range(1, len(seg) - 1):
            who, opc, perms = seg[:i], seg[i], seg[i + 1:]
            if not perms:
                continue
            g = b_and(*[one_of(c, "ugoa") for c in who], one_of(opc, "+-="), *[one_of(c, "rwx") for c in perms])
            if g is not False:
                res.append((g, who, opc, perms))
        return res

    def lists(start):
        if start == n:
            return [(True, [])]
        res = []
        for end in range(start + 3, n + 1):
            for g, who, opc, perms in clause(cs[start:end]):
                if end == n:
                    res.append((g, [(who, opc, perms)]))
                else:
                    for g2, rest in lists(end + 1):
                        gg = b_and(g, ceq(cs[end], ","), g2)
                        if gg is not False and rest:
                            res.append((gg, [(who, opc, perms)] + rest))
        return res
    for g, cl in lists(0):
        out.append((g, ("clauses", cl)))
    return out


def perm(cs, deviations=()):
    from props.c08 import chmod_fold
    out = []
    for prefix, kind, body in (("", "Equal", cs), ("-", "AtLeast", cs[1:]), ("/", "Any", cs[1:])):
        if prefix and not cs:
            continue
        gp = ceq(cs[0], prefix) if prefix else True
        for g, v in perm_bits(body):
            if isinstance(v, tuple):
                v = chmod_fold(v[1], deviations)
            gg = b_and(gp, g)
            if prefix == "" and body:
                gg = b_and(gg, b_not(one_of(body[0], "-/")))
            if gg is not False:
                out.append((gg, Adt("PermCheck", kind, [Adt("Permission", None, [Adt("Mode", None, [v])])])))
    return out


def word(cs):
    """an unquoted argument word: its characters, verbatim"""
    if not cs:
        return []
    return [(True, StringV(cs))]


def argument(kind, cs, deviations=()):
    """[(guard, list of node fields)] for argument text cs (one word)"""
    if kind == "str":
        return [(g, [v]) for g, v in word(cs)]
    if kind == "u32cmp":
        return [(g, [v]) for g, v in signed(cs, lambda x: number(x, 32))]
    if kind == "u64cmp":
        return [(g, [v]) for g, v in signed(cs, lambda x: number(x, 64))]
    if kind == "u32":
        return [(g, [v]) for g, v in number(cs, 32)]
    if kind == "size":
        return [(g, [v]) for g, v in signed(cs, lambda x: with_unit(x, SIZE_UNITS, "Block", "Size"))]
    if isinstance(kind, tuple) and kind[0] == "time":
        return [(g, [v]) for g, v in signed(cs, lambda x: with_unit(x, TIME_UNITS, kind[1], "TimeSpec"))]
    if kind == "types":
        return [(g, [v]) for g, v in types(cs)]
    if kind == "perm":
        return [(g, [v]) for g, v in perm(cs, deviations)]
    raise ValueError(kind)


def node_for(kw, fields):
    cat, variant, _ = VOCAB[kw]
    if cat == "Test":
        return Adt("Expression", "Test", [Adt("Test", variant, fields)])
    if cat == "Action":
        return Adt("Expression", "Action", [Adt("Action", variant, fields)])
    return None
