# C13 -- global options are honoured wherever they appear.
# Relational + direct: parse() (MIR) is executed on word sequences in which slots hold a symbolically
# selected word out of {-true, -depth, -threads NN, -maxdepth NN, -mindepth NN}; z3 proves
#   * the returned options = last occurrence of each option (values: symbolic digits),
#   * the returned tree = the tree of the same input with every option slot replaced by -true
#     (inner position) or removed (leading run),
#   * no Global node is reachable in the returned tree.
import time
import z3
from .common import *
from mirsym.stdmodel import struct_eq

PID = "C13"
DEVIATIONS = {"depth-limit-panic": "-maxdepth N / -mindepth N are accepted by the lexer but RunOptions::update hits unreachable!() (panic)"}

FRAMES = [   # expression skeletons; "@" marks option slots
    ["@"], ["@", "@"], ["@", "-name x"], ["@", "@", "-print"], ["-true", "@"], ["-true", "@", "-false"], ["(", "@", "-o", "-false", ")"],
    ["!", "@"], ["@", "-true", "@"], ["@", "-name x", "@", "@"], ["-size +1k", "@", ",", "-print"],
    # an option directly after a binary operator or a negation (it behaves as -true there, whatever the operator)
    ["-name x", "-o", "@", "-name y"], ["-false", "-o", "@"], ["-name x", "-a", "@", "-print"], ["-name x", ",", "@", "-print"], ["-name x", "-o", "!", "@"],
    # an option glued to the token that follows it (no blank before ')' or ','), as every other primary may be written
    ["(", "-name x", "@)"], ["-false", "@,", "-true"], ["(", "@)", "-o", "-print"],
    # ... and glued to the token before it
    ["-name x", "(@", "-o", "-print", ")"], ["-name x", "!@"], ["-false", ",@"],
]


def digit():
    c = sym_char()
    return c, z3.And(z3.UGE(c, 48), z3.ULE(c, 57))


def slot(tag, with_limits, tight=False):
    """returns (chars, assumptions, kind selector, value term (32 bit))"""
    d1, a1 = digit()
    d2, a2 = digit()
    opts = ["-true       ", "-depth      ", "-threads ", ]
    if with_limits:
        opts += ["-maxdepth ", "-mindepth "]
    sel = z3.Int("opt_" + tag)
    width = 12
    chars = []
    for i in range(width):
        t = z3.BitVecVal(32, 32)
        for k, o in reversed(list(enumerate(opts))):
            if k >= 2:
                full = list(o) + [d1, d2] + [" "] * (width - len(o) - 2)
            else:
                full = list(o)
            if tight:
                # right-aligned: the word ends at the slot's last column, so that what follows is glued to it
                body = [x for x in full]
                while body and body[-1] == " ":
                    body.pop()
                full = [" "] * (width - len(body)) + body
            x = full[i]
            xt = z3.BitVecVal(ord(x), 32) if isinstance(x, str) else x
            t = z3.If(sel == k, xt, t)
        chars.append(t)
    val = (z3.ZeroExt(0, d1) - 48) * 10 + (d2 - 48)
    return chars, [a1, a2, z3.And(sel >= 0, sel < len(opts))], sel, val


def contains_global(v, seen=None):
    """guard under which an Expression value contains a Global node"""
    if isinstance(v, Union):
        return b_or(*[b_and(g, contains_global(x)) for g, x in v.alts])
    if isinstance(v, (BoxV, ValRef)):
        return contains_global(v.v)
    if isinstance(v, Adt):
        if v.ty == "Expression" and v.variant == "Global":
            return True
        if v.ty in ("Expression", "Operator"):
            return b_or(*[contains_global(f) for f in v.fields])
    return False


def run(ctx, rep, tier):
    B = Bench(ctx, rep)
    known = {k["class"] for k in vlib.known_for(PID)}
    B.validate_parse(validation_corpus(ctx, seed=rep.seed, n_random=20) +
                     ["-depth", "-threads 7", "-depth -threads 12 -name x", "-true -depth", "( -threads 3 -o -false )", "-threads 2 -true -threads 9",
                      "-maxdepth 3", "-true -mindepth 2", "-threads", "-threads x", "-threads 4294967296"])
    samples = []
    frames = FRAMES
    for with_limits in (False, True):
        if with_limits and "depth-limit-panic" in known and tier == "quick":
            frames_l = frames[:3]
        else:
            frames_l = frames
        for fi, frame in enumerate(frames_l):
            spec, ref_spec, assume, slots = [], [], [], []
            leading = True
            def gap():
                # words are separated by one blank character of any kind (space, tab, newline, CR)
                c = sym_char()
                assume.append(z3.Or(c == 32, c == 9, c == 10, c == 13))
                return c
            for wi, w in enumerate(frame):
                pre = ""
                if len(w) > 1 and w.endswith("@") and w[0] in "(!,":
                    pre, w = w[:-1], "@"
                    spec.append(pre)
                    ref_spec.append(pre)
                    leading = False
                if w.startswith("@"):
                    glue = w[1:]
                    ch, a, sel, val = slot("%d_%d_%d" % (with_limits, fi, wi), with_limits, tight=bool(glue))
                    spec += ch + ([glue, gap()] if glue else [gap()])
                    assume += a
                    slots.append((sel, val, leading))
                    # reference input: -true in inner position; nothing (blanks) in the leading run
                    ref_spec.append(("slot", sel, leading))
                    if glue:
                        ref_spec.append(glue)
                else:
                    leading = False
                    spec += [w, gap()]
                    ref_spec.append(w)
            r = B.parse(spec, extra_assume=assume)
            I = r.I
            st = St()
            # expected options: last occurrence wins
            depth = b_or(*[sel == 1 for sel, _, _ in slots])
            threads = Adt("Option", "None")
            for sel, val, _ in slots:
                threads = merge_many([(sel == 2, Adt("Option", "Some", [val])), (sel != 2, threads)])
            exp_opts = Struct("RunOptions", ("depth", "threads"), (depth, threads))
            # expected tree: parse of the reference input (option slots -> -true, or dropped when leading... a leading
            # slot that holds -true stays a -true).  All-leading-options input means -true.
            # The reference is itself executed by M on a spelling without option words.
            ref_chars = []
            for it in ref_spec:
                if isinstance(it, str):
                    ref_chars += [it, " "]
                else:
                    _, sel, lead = it
                    txt_true = "-true "
                    if lead:
                        # leading run: options vanish, a literal -true stays
                        for i, chx in enumerate(txt_true):
                            ref_chars.append(z3.If(sel == 0, z3.BitVecVal(ord(chx), 32), z3.BitVecVal(32, 32)))
                    else:
                        ref_chars += [txt_true]
            # caution: in the leading run, a '-true' stops the run: later "leading" slots are inner ones
            lead_break = []
            seen_true = False
            for sel, _, lead in slots:
                if lead:
                    lead_break.append(seen_true)
                    seen_true = b_or(seen_true, sel == 0)
            # simplify: require that within the leading run no option follows a literal -true slot (that case is an
            # inner option and is covered by frames where the slot comes after a primary)
            lb = [z3.Not(z3.And(x, sel != 0)) for x, (sel, _, lead) in zip(lead_break, [s for s in slots if s[2]]) if x is not False]
            ref = B.parse(ref_chars, extra_assume=assume)
            bad_opts, bad_tree, has_global, panic = False, False, False, False
            for g, v in r.alts:
                if isinstance(v, Panic):
                    panic = b_or(panic, g)
                elif is_ok(v):
                    o, t = v.fields[0]
                    bad_opts = b_or(bad_opts, b_and(g, b_not(struct_eq(I, o, exp_opts, st))))
                    has_global = b_or(has_global, b_and(g, contains_global(t)))
            rt = merge_many([(g, v.fields[0][1] if is_ok(v) else Adt("Spec", "Error")) for g, v in r.alts if not isinstance(v, Panic)] or [(True, Adt("Spec", "Error"))])
            ft = merge_many([(g, v.fields[0][1] if is_ok(v) else Adt("Spec", "Error")) for g, v in ref.alts if not isinstance(v, Panic)] or [(True, Adt("Spec", "Error"))])
            bad_tree = b_not(struct_eq(I, rt, ft, st))
            limits_used = b_or(*[z3.Or(sel == 3, sel == 4) for sel, _, _ in slots]) if with_limits else False
            A = r.assume + lb
            tag = "%s:f%d" % ("limits" if with_limits else "opts", fi)
            if with_limits:
                A = A + [limits_used]
            if with_limits:
                # RunOptions has no field for the depth limits, so they cannot be honoured: the statement then requires the
                # whole input to be rejected with an error
                accepted = b_or(*[g for g, v in r.alts if not isinstance(v, Panic) and is_ok(v)])
                res, m = B.solve("%s:depth-limit-rejected" % tag, A, accepted)
                if res == z3.sat:
                    t = model_string(m, spec)
                    d = B.ctx.run_native([t], "debug")[0]
                    if d.get("parse") == "ok":
                        rep.violation("options:depth-limit-dropped", "%r is accepted although the depth limit can be neither honoured nor reported: %s" % (t, d.get("opts")), dict(input=t))
                    else:
                        rep.inconclusive.append("witness %r does not reproduce" % t)
            for cname, bad in (("options-last-wins", bad_opts), ("tree-unchanged", b_and(bad_tree, b_not(panic))), ("no-global-node", has_global)):
                if with_limits:
                    continue
                res, m = B.solve("%s:%s" % (tag, cname), A, bad)
                if res == z3.sat:
                    report(B, rep, cname, model_string(m, spec), model_string(m, ref_chars))
            res, m = B.solve("%s:no-panic" % tag, A, panic)
            if res == z3.sat:
                text = model_string(m, spec)
                d, rr = B.native_all([text])[0]
                if d.get("parse") != "panic":
                    rep.inconclusive.append("panic witness %r does not reproduce" % text)
                elif with_limits and ("-maxdepth" in text or "-mindepth" in text):
                    rep.violation("depth-limit-panic", DEVIATIONS["depth-limit-panic"] + "; witness %r" % text, dict(input=text))
                else:
                    rep.violation("option-panic", "parse(%r) panics: %s" % (text, d.get("panic")), dict(input=text))
            if len(samples) < 6:
                samples.append(dict(frame=" ".join(frame), slot_words=["-true", "-depth", "-threads NN"] + (["-maxdepth NN", "-mindepth NN"] if with_limits else [])))
    n_emit = thread_emission(B, rep)
    cov = B.coverage_common()
    cov["thread_count_emission"] = dict(obligations=n_emit, explanation="scheme::compile + CompiledExpression::scheme executed (MIR, both profiles) "
                                        "with RunOptions { depth: symbolic bool, threads: None | Some(symbolic u32) }; z3 proves that the last "
                                        "argument of the emitted (lipe-scan ...) call is the decimal rendering of exactly that u32, or "
                                        "(lipe-getopt-thread-count) when no count was requested")
    cov.update(explanation="parse() executed symbolically (MIR) on expression frames whose option slots hold a symbolically selected "
               "option word with symbolic two-digit values; z3 decides last-wins options, tree equality with the option-free "
               "spelling (also executed by M), absence of Global nodes and absence of panics",
               bounds=dict(frames=len(frames), slots_per_frame="1..2", option_value_digits=2), samples=samples,
               outside="more than two option slots; option values of more than two digits on the parse side (the emission side covers every u32)",
               evaluations=len(rep.queries), distinct_nontrivial=len(rep.queries))
    rep.coverage = cov


def scan_thread_argument(items):
    """the rope items of the last argument of (lipe-scan ...): what follows (lipe-getopt-required-attrs)"""
    marker = [ord(c) for c in "(lipe-getopt-required-attrs)"]
    idx = None
    for i in range(len(items) - len(marker) + 1):
        if all(isinstance(items[i + j], int) and items[i + j] == marker[j] for j in range(len(marker))):
            idx = i + len(marker)
    if idx is None:
        return None
    rest = list(items[idx:])
    while rest and isinstance(rest[0], int) and chr(rest[0]).isspace():
        rest.pop(0)
    arg = []
    depth = 0
    for it in rest:
        if isinstance(it, int):
            c = chr(it)
            if c == "(":
                depth += 1
            elif c == ")":
                if depth == 0:
                    break
                depth -= 1
            elif c.isspace() and depth == 0:
                break
        arg.append(it)
    return arg


def thread_emission(B, rep):
    from .trees import compile_tree, render
    n = 0
    default = [ord(c) for c in "(lipe-getopt-thread-count)"]
    for profile in ("dev", "rel"):
        some = z3.Bool("thr_some_" + profile)
        val = z3.BitVec("thr_val_" + profile, 32)
        depth = z3.Bool("depth_" + profile)
        threads = Union([(some, Adt("Option", "Some", [val])), (z3.Not(some), Adt("Option", "None"))])
        opts = Struct("RunOptions", ("depth", "threads"), (depth, threads))
        tree = Adt("Expression", "Test", [Adt("Test", "True")])
        cr = compile_tree(B, tree, opts, profile)
        bad = False
        for g, cv in cr.alts:
            if isinstance(cv, Panic) or not is_ok(cv):
                bad = b_or(bad, g)
                continue
            for g2, ce in flatten_value(cv.fields[0]):
                items = render(B, cr, ce)
                arg = scan_thread_argument(items)
                gg = b_and(g, g2)
                if arg is None:
                    bad = b_or(bad, gg)
                elif len(arg) == 1 and isinstance(arg[0], Seg) and arg[0].kind == "dec":
                    t = arg[0].term
                    t = z3.ZeroExt(64 - t.size(), t) if is_sym(t) and t.size() < 64 else t
                    same_val = (t == z3.ZeroExt(32, val)) if is_sym(t) and t.size() == 64 else (z3.BitVecVal(t, 32) == val if isinstance(t, int) else False)
                    bad = b_or(bad, b_and(gg, z3.Not(z3.And(some, same_val))))
                elif all(isinstance(x, int) for x in arg):
                    if arg == default:
                        bad = b_or(bad, b_and(gg, some))
                    else:
                        txt = "".join(map(chr, arg))
                        ok_ = z3.And(some, val == int(txt)) if txt.isdigit() and int(txt) < (1 << 32) else False
                        bad = b_or(bad, b_and(gg, z3.Not(ok_) if ok_ is not False else True))
                else:
                    bad = b_or(bad, gg)
        res, m = B.solve("thread-count-emission:" + profile, list(cr.assume), bad)
        n += 1
        if res == z3.sat:
            is_some = eval_guard(m, some)
            v = m.eval(val, model_completion=True).as_long()
            text = ("-threads %d -true" % v) if is_some else "-true"
            d = B.ctx.run_native([text], "debug" if profile == "dev" else "release")[0]
            sch = d.get("scheme", "")
            tail = sch[sch.rfind("(lipe-getopt-required-attrs)") + len("(lipe-getopt-required-attrs)"):].split("))")[0].strip()
            want = str(v) if is_some else "(lipe-getopt-thread-count)"
            if tail == want or tail + ")" == want:
                rep.inconclusive.append("thread-count emission witness %r does not reproduce (%s)" % (text, profile))
            else:
                rep.violation("options:thread-count-emission", "%r: the scan call is emitted with thread argument %r, expected %s (%s)" % (text, tail, want, profile),
                              dict(input=text, expected=want, profile=profile))
    return n


def report(B, rep, cname, a, b):
    da, db = B.native_all([a, b])
    da, db = da[0], db[0]
    if cname == "tree-unchanged":
        if (da.get("parse"), da.get("tree")) == (db.get("parse"), db.get("tree")):
            rep.inconclusive.append("counterexample %r vs %r (%s) does not reproduce natively" % (a, b, cname))
            return
    rep.violation("options:" + cname, "%r: options %s tree %s; option-free spelling %r: tree %s" % (a, da.get("opts"), da.get("tree") or da.get("parse"), b, db.get("tree") or db.get("parse")),
                  dict(a=a, b=b, native_a=da, native_b=db, claim=cname))


def replay(ctx, path):
    import json
    rp = json.load(open(path))["replay"]
    if "a" in rp:
        d = ctx.run_native([rp["a"], rp["b"]], "debug")
        print("a=%r -> %s | %s\nb=%r -> %s" % (rp["a"], d[0].get("opts"), d[0].get("tree") or d[0].get("parse"), rp["b"], d[1].get("tree") or d[1].get("parse")))
        return 1
    d = ctx.run_native([rp["input"]], "debug")[0]
    if "expected" in rp:
        sch = d.get("scheme", "")
        tail = sch[sch.rfind("(lipe-getopt-required-attrs)") + len("(lipe-getopt-required-attrs)"):].split("))")[0].strip()
        print("input=%r -> thread argument of the scan call: %r, expected %s" % (rp["input"], tail, rp["expected"]))
        return 0 if tail in (rp["expected"], rp["expected"][:-1]) else 1
    print("input=%r -> %s" % (rp["input"], d.get("parse")))
    return 1 if d.get("parse") == "panic" else 0
