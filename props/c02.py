# C02 -- the compiled policy means what the expression means (translation validation).
# Programs are produced by the REAL scheme::compile / scheme() executed from MIR by Engine M, with the
# constants of each primary symbolic (counts, ids, permission bits, clock); each emitted program is read and
# executed by Engine S on a fully symbolic file record and z3 proves: same truth value, same ordered outputs
# (destination, bytes, terminator), same stop request, no run-time error -- for ALL files and ALL constants.
import itertools, random, time
import z3
from .common import *
from .trees import *
from .semantics import compare
from spec import findsem

PID = "C02"
DEVIATIONS = {
    "clear-escape": "the \\c escape is emitted as \\c inside a Scheme string literal, which Guile rejects (illegal escape): the policy cannot be read",
    "backslash-unescaped": "a literal backslash of a format is emitted raw into the Scheme template, so it escapes the character that follows it",
}


def T_(variant, *fields):
    return Adt("Expression", "Test", [Adt("Test", variant, list(fields))])


def A_(variant, *fields):
    return Adt("Expression", "Action", [Adt("Action", variant, list(fields))])


def cmp_leaves():
    """every numeric primary with symbolic count"""
    out = []
    for kind, sign in (("GreaterThan", "+"), ("LesserThan", "-"), ("Equal", "")):
        for test, kw, bits in (("UserId", "-uid", 32), ("GroupId", "-gid", 32), ("InodeNumber", "-inum", 32), ("Links", "-links", 64),
                               ("MirrorCount", "-mirror-count", 32), ("StripeCount", "-stripe-count", 32)):
            n = z3.BitVec("n_%s_%s" % (test, kind), bits)
            out.append(("%s %s" % (kw, kind), T_(test, Adt("Comparison", kind, [n])), [], lambda m, kw=kw, sign=sign, n=n: "%s %s%d" % (kw, sign, m.eval(n, model_completion=True).as_long())))
        for unit, suf in (("Byte", "c"), ("Word", "w"), ("Block", "b"), ("KiloByte", "k"), ("MegaByte", "M"), ("GigaByte", "G"), ("TeraByte", "T")):
            n = z3.BitVec("sz_%s_%s" % (unit, kind), 64)
            out.append(("-size %s %s" % (kind, unit), T_("Size", Adt("Comparison", kind, [Adt("Size", unit, [n])])), [],
                        lambda m, sign=sign, n=n, suf=suf: "-size %s%d%s" % (sign, m.eval(n, model_completion=True).as_long(), suf)))
        for test, kw in (("AccessTime", "-atime"), ("ChangeTime", "-ctime"), ("ModifyTime", "-mtime")):
            for unit, suf in (("Second", "s"), ("Minute", "m"), ("Hour", "h"), ("Day", "d")):
                n = z3.BitVec("t_%s_%s_%s" % (test, unit, kind), 64)
                out.append(("%s %s %s" % (kw, kind, unit), T_(test, Adt("Comparison", kind, [Adt("TimeSpec", unit, [n])])), [],
                            lambda m, kw=kw, sign=sign, n=n, suf=suf: "%s %s%d%s" % (kw, sign, m.eval(n, model_completion=True).as_long(), suf)))
    return out


def other_leaves(T):
    out = []
    for text in ["-true", "-false", "-empty", "-executable", "-readable", "-writable", "-name foo", "-name 'f*'", "-iname Foo", "-iname foo", "-iname 'F?'",
                 "-path ./a/b", "-ipath './A*'", "-pool p1", "-xattr user.a", "-xattr-match user.a val", "-xattr-match user.a 'v*'",
                 "-type f", "-type d", "-type l", "-type b", "-type c", "-type p", "-type s", "-type f,d", "-type l,s,p",
                 "-print", "-print0", "-fprint out1", "-fprint0 out2", "-print-file-fid", "-quit"]:
        v, sx = T.leaf(text)
        out.append((text, v, [], lambda m, text=text: text))
    for kind, pre in (("Equal", ""), ("AtLeast", "-"), ("Any", "/")):
        bits = z3.BitVec("perm_" + kind, 32)
        out.append(("-perm %s" % kind, T_("Perm", Adt("PermCheck", kind, [Adt("Permission", None, [Adt("Mode", None, [bits])])])),
                    [z3.ULE(bits, 0o7777)], lambda m, pre=pre, bits=bits: "-perm %s%04o" % (pre, m.eval(bits, model_completion=True).as_long())))
    return out


FIELDS = ["%%", "%a", "%b", "%c", "%f", "%g", "%G", "%h", "%H", "%i", "%k", "%m", "%n", "%p", "%P", "%s", "%S", "%t", "%u", "%U", "%y",
          "%{fid}", "%{projid}", "%{mirror-count}", "%{stripe-count}", "%{stripe-size}", "%{xattr:foo}", "%A@", "%C@", "%T@", "%AY", "%Ck", "%TH"]
ESCAPES = ["\\n", "\\t", "\\a", "\\b", "\\r", "\\v", "\\0", "\\101", "\\\\"]        # \\c is refused by compile (C12)


def format_leaves(T):
    out = []
    for f in FIELDS:
        for text in ("-printf '%s\\n'" % f, "-fprintf out 'x%sy'" % f):
            v, sx = T.leaf(text)
            out.append((text, v, [], lambda m, text=text: text))
    for e in ESCAPES:
        text = "-printf 'a%sb\\n'" % e
        v, sx = T.leaf(text)
        out.append((text, v, [], lambda m, text=text: text))
    text = "-printf '%p,%U,%G,%m,%s,%A@,%C@,%T@,%{projid},%{fid}\\n'"
    out.append((text, T.leaf(text)[0], [], lambda m, text=text: text))
    # symbolic ASCII escape
    n = z3.BitVec("ascii_n", 16)
    fmt = VecV([Adt("FormatElement", "Literal", [StringV.of("a")]), Adt("FormatElement", "Special", [Adt("FormatSpecial", "Ascii", [n])]),
                Adt("FormatElement", "Special", [Adt("FormatSpecial", "Newline")])])
    out.append(("-printf 'a\\NNN\\n'", A_("PrintFormatted", fmt), [z3.ULT(n, 512), z3.UGE(n, 1)],
                lambda m, n=n: "-printf 'a\\%03o\\n'" % m.eval(n, model_completion=True).as_long()))
    return out


def run(ctx, rep, tier):
    B = Bench(ctx, rep)
    known = {k["class"] for k in vlib.known_for(PID)}
    T = Trees(B)
    rnd = random.Random(rep.seed)
    leaves = cmp_leaves() + other_leaves(T) + format_leaves(T)
    samples, n = [], 0
    t0 = time.time()

    def one(label, tree, assume, mk_sexpr, names):
        findings, info = compare(B, label, tree, None, assume_extra=assume)
        for f in findings[:1]:
            m = f.get("model")
            sx = mk_sexpr(m) if m is not None else mk_sexpr(None)
            handle(B, rep, known, names, sx, f)
        return info

    # (i) every supported primary alone
    for name, v, assume, mk in leaves:
        info = one("leaf%d" % n, v, assume, lambda m, mk=mk: '(s "%s")' % esc(mk(m)) if m is not None else '(s "%s")' % esc(safe(mk)), [name])
        n += 1
        if len(samples) < 8 and info and info.get("text"):
            samples.append(dict(primary=name, program_body=body_of(info["text"])))
    # (i') every numeric / permission primary under '!': the constants stay symbolic (a rewrite of `! cmp` into the opposite
    # comparison must be right for every constant, also the boundary ones)
    for name, v, assume, mk in [l for l in leaves if isinstance(l[2], list) and any(k in l[0] for k in ("GreaterThan", "LesserThan", "Equal", "-perm"))]:
        if tier == "quick" and not any(k in name for k in ("-uid", "-links", "-size LesserThan KiloByte", "-size GreaterThan Block", "-mtime LesserThan Day", "-perm AtLeast")):
            continue
        neg = Adt("Expression", "Operator", [BoxV(Adt("Operator", "Not", [v]), "Rc")])
        one("not%d" % n, neg, assume, lambda m, mk=mk: '(not (s "%s"))' % esc(mk(m)) if m is not None else '(not (s "%s"))' % esc(safe(mk)), [name])
        n += 1
    # (i'') many resources in one program: identifiers of two digits and more (ten file printers; four matchers before a printer)
    def chain(texts, opname):
        ls = [T.leaf(t) for t in texts]
        cur = ls[0]
        for l in ls[1:]:
            cur = T.op(opname, cur, l)
        return cur
    for label, tree in (("ten-files", chain(["-fprint F%d" % i for i in range(10)], "List")),
                        ("matchers-then-file", T.op("And", chain(["-name n%d" % i for i in range(5)], "Or"), T.leaf("-fprint out1")))):
        findings, info = compare(B, label, tree[0], tree[1])
        for f in findings[:1]:
            handle(B, rep, known, [label], tree[1], f)
        n += 1
    n_leaf = n
    # (ii) operator trees over a leaf alphabet with symbolic constants
    alpha = [l for l in leaves if l[0] in ("-true", "-false", "-executable", "-name foo", "-iname foo", "-name 'f*'", "-uid GreaterThan", "-size LesserThan KiloByte",
                                           "-print", "-print0", "-quit", "-fprint out1", "-printf '%p\\n'", "-mtime Equal Day", "-perm AtLeast", "-type f,d")]
    shapes = []
    for a, b in itertools.product(alpha, repeat=2):
        for opn in ("And", "Or", "List"):
            shapes.append((opn, a, b))
    rnd.shuffle(shapes)
    # a fixed number of shapes (the selection depends on VERIF_SEED only); the CPU-time budget is a safety net
    budget = 400 if tier == "quick" else 6000
    t1 = time.process_time()
    for opn, a, b in (shapes[:300] if tier == "quick" else shapes):
        if time.process_time() - t1 > budget:
            rep.coverage["pairs_truncated_at"] = n
            break
        tree = Adt("Expression", "Operator", [BoxV(Adt("Operator", opn, [a[1], b[1]]), "Rc")])
        if n % 4 == 0:
            tree = Adt("Expression", "Operator", [BoxV(Adt("Operator", "Not", [tree]), "Rc")])
        mk = lambda m, a=a, b=b, opn=opn, neg=(n % 4 == 0): ("(not %s)" if neg else "%s") % ("(%s (s \"%s\") (s \"%s\"))" % ({"And": "and", "Or": "or", "List": "list"}[opn], esc(a[3](m) if m is not None else safe(a[3])), esc(b[3](m) if m is not None else safe(b[3]))))
        one("tree%d" % n, tree, a[2] + b[2], mk, [a[0], b[0]])
        n += 1
    # three-leaf trees (sampled)
    t2 = time.process_time()
    budget3 = 200 if tier == "quick" else 4000
    for _ in range(40 if tier == "quick" else 2000):
        if time.process_time() - t2 > budget3:
            rep.coverage["triples_truncated_at"] = n
            break
        a, b, c = rnd.choice(alpha), rnd.choice(alpha), rnd.choice(alpha)
        o1, o2 = rnd.choice(["And", "Or", "List"]), rnd.choice(["And", "Or", "List"])
        inner = Adt("Expression", "Operator", [BoxV(Adt("Operator", o1, [a[1], b[1]]), "Rc")])
        if rnd.random() < 0.3:
            inner = Adt("Expression", "Operator", [BoxV(Adt("Operator", "Not", [inner]), "Rc")])
        tree = Adt("Expression", "Operator", [BoxV(Adt("Operator", o2, [inner, c[1]] if rnd.random() < 0.5 else [c[1], inner]), "Rc")])
        one("tri%d" % n, tree, a[2] + b[2] + c[2], lambda m: "(three-leaf tree over %s)" % [a[0], b[0], c[0]], [a[0], b[0], c[0]])
        n += 1
    cov = B.coverage_common()
    cov.update(explanation="translation validation: %d single-primary programs (every supported test/action/format directive, numeric "
               "constants symbolic) and %d operator trees; each program produced by the real compile (MIR) is executed on a symbolic file "
               "record and compared with find semantics by z3 for all files and constants" % (n_leaf, n - n_leaf),
               programs=n, disagreements_checked=len(rep.violations) + len(rep.known_hits), samples=samples,
               bounds=dict(tree_leaves="1, 2 (quick: 300 of the 768 ordered pairs over a 16-leaf alphabet x and/or/','; thorough: all), 3 (40 / 2000 sampled)",
                           constants="symbolic u32/u64 counts, 12 permission bits, symbolic clock"),
               outside="the real Guile/LiPE runtime (modelled contract); strftime/user-name rendering (opaque); inputs whose compile panics "
                       "(size overflow: C03/C07); ASCII escapes >= 128; strings containing quote, backslash or tilde (C04)",
               evaluations=n, distinct_nontrivial=n)
    rep.coverage = cov
    rep.assumptions = ["runtime contract of DESIGN.md 2.3", "file timestamps are not later than the compile-time clock",
                       "fnmatch coincides with string equality on patterns without * ? [ \\"]


def safe(mk):
    try:
        return mk(_ZeroModel())
    except Exception:
        return "?"


class _ZeroModel:
    def eval(self, t, model_completion=True):
        return z3.BitVecVal(0, t.size()) if z3.is_bv(t) else z3.IntVal(0)


def esc(s):
    return s.replace("\\", "\\\\").replace('"', '\\"')


def body_of(text):
    i = text.find("(lambda () ", text.find("lipe-scan"))
    return text[i:i + 200].replace("\n", " ")


def handle(B, rep, known, names, sx, f):
    joined = " ".join(names)
    if f["klass"] == "program-unreadable" and "\\c" in joined and "clear-escape" in known:
        d = B.ctx.run_native_trees([sx])[0]
        if "\\c" in d.get("scheme", ""):
            rep.violation("clear-escape", DEVIATIONS["clear-escape"] + "; witness " + joined, dict(sexpr=sx))
        return
    if "\\\\" in joined and "backslash-unescaped" in known and f["klass"] in ("program-unreadable", "output", "runtime-error"):
        d = B.ctx.run_native_trees([sx])[0]
        rep.violation("backslash-unescaped", DEVIATIONS["backslash-unescaped"] + "; witness " + joined, dict(sexpr=sx))
        return
    d = B.ctx.run_native_trees([sx])[0] if sx.startswith("(") and "three-leaf" not in sx else {}
    rep.violation("translation:" + f["klass"], "%s: %s; emitted: %s" % (joined, f["text"], body_of(d.get("scheme", ""))),
                  dict(sexpr=sx, finding=f["text"], detail=f.get("detail"), native_scheme=d.get("scheme", "")[-700:]))


def replay(ctx, path):
    import json
    rp = json.load(open(path))["replay"]
    d = ctx.run_native_trees([rp["sexpr"]])[0]
    print("tree=%s\n%s\nfinding: %s\n%s" % (rp["sexpr"], body_of(d.get("scheme", "")), rp.get("finding"), rp.get("detail")))
    return 1
