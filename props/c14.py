# C14 -- format strings are segmented exactly as the printf mini-language says.
# Implementation side: Engine M executes parse("-printf '<symbolic chars>'") (the real lexer, quote
# handling and format parser from MIR).  Specification side: spec/formatspec.scan.  z3 decides equality
# of the element lists for every string within the bound.
import time
import z3
from .common import *
from spec import formatspec
from mirsym.stdmodel import struct_eq

PID = "C14"
DEVIATIONS = {
    "octal-greedy": "an octal escape swallows more than three digits (e.g. -printf '\\1234' gives Ascii(668), not Ascii(83)+'4')",
    "no-formfeed": "the documented escape \\f is not recognised (-printf '\\f' gives Backslash + literal 'f')",
}


def families(tier):
    """input families: (name, [items]) ; items are str or ('sym', k) placeholders"""
    fams = []
    Lmax = 4 if tier == "quick" else 5        # 6 arbitrary code points did not finish within 70 minutes (measured)
    for L in range(1, Lmax + 1):
        fams.append(("any%d" % L, [("sym", L)]))
    directed = ["%p", "%%", "%Ak", "%{fid}", "%{projid}", "%{mirror-count}", "%{stripe-count}", "%{stripe-size}",
                "%{xattr:ab}", "\\n", "\\101", "\\0", "\\\\", "\\f", "\\c", "\\q", "\\1234"]
    for d in directed:
        fams.append(("around:" + d, [("sym", 1), d, ("sym", 1)]))
        if tier == "thorough":
            fams.append(("around2:" + d, [("sym", 2), d, ("sym", 2)]))
    # the braced directives from the inside: `%{` / `%{xattr:` followed by arbitrary characters (names that are empty, cut short,
    # extended, or not closed), and every braced directive with one character replaced or inserted
    for k in ((1, 2, 3) if tier == "quick" else (1, 2, 3, 4)):
        fams.append(("xattr-name%d" % k, ["%{xattr:", ("sym", k)]))
    for k in ((4,) if tier == "quick" else (4, 5)):          # `fid}` is the shortest tail that closes a directive
        fams.append(("braced%d" % k, ["%{", ("sym", k)]))
    for w in ("fid", "projid", "mirror-count", "stripe-count", "stripe-size", "xattr:ab"):
        fams.append(("braced-tail:" + w, ["%{" + w, ("sym", 2)]))
        fams.append(("braced-cut:" + w, ["%{" + w[:-1], ("sym", 2)]))
    # long literal runs before and between directives (a scan bounded at some length would stop splitting there)
    for L in ((40, 256, 300) if tier == "quick" else (40, 255, 256, 257, 300, 1030)):
        fams.append(("long%d" % L, ["x" * L, ("sym", 1), "%p", "y" * L, "\\n", ("sym", 1)]))
    return fams


def impl_format(run):
    """map parse outcomes to the format element list (or ERR)"""
    alts = []
    for g, v in run.alts:
        if isinstance(v, Panic):
            alts.append((g, Adt("Spec", "Panic")))
        elif is_ok(v):
            tree = v.fields[0][1]
            ok = False
            for g2, t in alts_of(tree):
                if isinstance(t, Adt) and t.variant == "Action":
                    for g3, a in alts_of(t.fields[0]):
                        if a.variant == "PrintFormatted":
                            alts.append((b_and(g, g2, g3), a.fields[0]))
                            continue
                        alts.append((b_and(g, g2, g3), Adt("Spec", "Other")))
                else:
                    alts.append((b_and(g, g2), Adt("Spec", "Other")))
        else:
            alts.append((g, formatspec.ERR))
    return alts


def run(ctx, rep, tier):
    B = Bench(ctx, rep)
    known = {k["class"] for k in vlib.known_for(PID)}
    dev = tuple(d for d in DEVIATIONS if d in known)
    B.validate_parse(validation_corpus(ctx, seed=rep.seed, n_random=10)[:60] +
                     ["-printf '%s'" % x for x in ("a%pb", "%", "%q", "\\101x", "\\1234", "\\f", "\\", "%Ak", "%A", "%{fid}", "%{xattr:ab}", "x\\ny")])
    samples = []
    n_fam = 0
    only = os.environ.get("VERIF_C14_ONLY")
    for name, items in families(tier):
        if only and name not in only.split(","):
            continue
        spec = ["-printf '"]
        chars = []
        for it in items:
            if isinstance(it, str):
                spec.append(it)
                chars.extend(ord(c) for c in it)
            else:
                for _ in range(it[1]):
                    c = sym_char()
                    spec.append(c)
                    chars.append(c)
        spec.append("'")
        sym = [c for c in chars if not isinstance(c, int)]
        assume = [c != ord("'") for c in sym]
        t0 = time.time()
        r = B.parse(spec, "dev", extra_assume=assume)
        impl = merge_many(impl_format(r))
        strict = merge_many(formatspec.scan(chars, ()))
        allowed = merge_many(formatspec.scan(chars, dev)) if dev else strict
        st = St()

        def differs(spec_val):
            # disagreement, ignoring inputs where the statement is silent
            sil = struct_eq(r.I, spec_val, formatspec.SILENT, st) if isinstance(spec_val, (Union, Adt)) else False
            return b_and(b_not(struct_eq(r.I, impl, spec_val, st)), b_not(sil))

        # reachability twin: the family must reach the format parser with an Ok result
        # (`%{xattr:` + one character cannot be a complete directive: the twin of that family is "some input is rejected")
        reach, _ = B.solve("%s:reach" % name, r.assume, r.guard(is_err if name == "xattr-name1" else is_ok))
        if reach != z3.sat:
            rep.inconclusive.append("family %s never parses successfully (vacuous)" % name)
            continue
        res, m = B.solve("%s:equal" % name, r.assume, differs(allowed))
        n_fam += 1
        if res == z3.sat:
            text = model_string(m, spec)
            report(B, rep, text, "unexpected segmentation", concretize(m, impl), concretize(m, allowed))
        # known deviations: show that they still reproduce (one witness each)
        for d in dev:
            others = tuple(x for x in dev if x != d)
            without = merge_many(formatspec.scan(chars, others))
            res2, m2 = B.solve("%s:known:%s" % (name, d), r.assume,
                               b_and(b_not(struct_eq(r.I, allowed, without, st)), struct_eq(r.I, impl, allowed, st)))
            if res2 == z3.sat:
                text = model_string(m2, spec)
                if replay_differs(B, text, concretize(m2, without)):
                    rep.violation(d, DEVIATIONS[d] + "; witness " + repr(text), dict(input=text))
        if len(samples) < 8:
            samples.append(dict(family=name, input_shape=show_spec(spec), seconds=round(time.time() - t0, 2)))
    cov = B.coverage_common()
    cov.update(explanation="parse(\"-printf '<s>'\") executed symbolically from MIR for every family; z3 decides equality with the "
               "specification scanner for all strings s in the family",
               bounds=dict(any_string_max_len=4 if tier == "quick" else 5, alphabet="all Unicode scalar values except the single quote",
                           directed="each documented directive/escape with 1 (thorough: 2) arbitrary characters on both sides"),
               outside="longer strings; strings containing a single quote (delivered through double quotes, not explored); "
                       "1-2 digit octal escapes and %{xattr:NAME} with non-alphabetic NAME (statement silent)",
               families=n_fam, samples=samples, evaluations=n_fam, distinct_nontrivial=n_fam)
    rep.coverage = cov
    rep.assumptions = ["log level Off (disabled log statements do not evaluate their arguments)",
                       "winnow 0.6.7 / core::fmt / str::parse modelled as intrinsics (mirsym/winnow.py, stdmodel.py)"]


def native_elements(B, text):
    d, r = B.native_all([text])[0]
    return d, r


def replay_differs(B, text, expected_without):
    """native run of a known-deviation witness: confirm the implementation does NOT give the strict result"""
    d, r = B.native_all([text])[0]
    want = render_elems(B, expected_without)
    got = d.get("tree") if d.get("parse") == "ok" else d.get("parse")
    return want is None or got != want


def render_elems(B, v):
    if isinstance(v, Adt) and v.ty == "Spec":
        return {"Error": "err", "Panic": "panic"}.get(v.variant)
    I = B.engine("dev").I
    try:
        return "Action(PrintFormatted(%s))" % text_of(I.fmt_debug(I, v, St()))
    except Exception:
        return None


def report(B, rep, text, what, impl_v, spec_v):
    d, r = B.native_all([text])[0]
    want = render_elems(B, spec_v)
    got = d.get("tree") if d.get("parse") == "ok" else d.get("parse")
    if want is not None and got == want:
        rep.inconclusive.append("counterexample %r does not reproduce natively (model/encoding mismatch)" % text)
        return
    klass = "segmentation:" + ("panic" if d.get("parse") == "panic" else "err" if d.get("parse") == "err" else "elements")
    rep.violation(klass, "%s for %r: native %r, specification %r" % (what, text, got, want),
                  dict(input=text, native_debug=d, native_release=r, expected=want))


def replay(ctx, path):
    import json
    rp = json.load(open(path))["replay"]
    d = ctx.run_native([rp["input"]], "debug")[0]
    print("input=%r native: %s" % (rp["input"], d.get("tree") or d.get("err") or d.get("panic")))
    print("expected: %s" % rp.get("expected"))
    return 1 if (d.get("tree") if d.get("parse") == "ok" else d.get("parse")) != rp.get("expected") else 0
