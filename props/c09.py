# C09 -- implicit print is added exactly when no action is present.
# All trees up to 3 leaves (thorough: plus 6000 sampled trees of 4..6 leaves) over {true, false, name test, print, quit, fprint} and every operator
# are compiled by the real code (scheme::compile from MIR), the emitted program is executed by Engine S on a
# symbolic file record and compared (z3) with the meaning of  "( expr ) -a -print"  (no action in the tree)
# resp. of expr itself (some action present).  Plus: an inductive step on compile's wrapping decision.
import itertools, time
import z3
from .common import *
from .trees import *
from .semantics import compare
from spec.findsem import has_action

PID = "C09"
LEAVES = ["-true", "-false", "-name foo", "-print", "-quit", "-fprint out"]


def gen_trees(T, leaves, max_leaves):
    """all trees with 1..max_leaves leaves over And/Or/List/Not"""
    by_n = {1: [T.leaf(l) for l in leaves]}
    out = list(by_n[1])
    for n in range(2, max_leaves + 1):
        cur = []
        for k in range(1, n):
            for a in by_n[k]:
                for b in by_n[n - k]:
                    for op in ("And", "Or", "List"):
                        cur.append(T.op(op, a, b))
        by_n[n] = cur
        out += cur
    # negations of everything up to max_leaves-1 leaves, and of pairs
    nots = [T.op("Not", t) for t in out if t[1].count("(s ") < max_leaves]
    return out + nots


def run(ctx, rep, tier):
    B = Bench(ctx, rep)
    T = Trees(B)
    max_leaves = 3
    trees = gen_trees(T, LEAVES, max_leaves)
    if tier != "quick":
        # sampled trees of 4..6 leaves with negations at random positions
        import random
        rnd = random.Random(rep.seed)

        def rand_tree(n):
            if n == 1:
                t_ = T.leaf(rnd.choice(LEAVES))
            else:
                k = rnd.randint(1, n - 1)
                t_ = T.op(rnd.choice(["And", "Or", "List"]), rand_tree(k), rand_tree(n - k))
            return T.op("Not", t_) if rnd.random() < 0.2 else t_
        trees += [rand_tree(rnd.randint(4, 6)) for _ in range(6000)]
    # directed deeper shapes (action under negation, on the right of OR, left of ',', in dead branches)
    t = T.leaf
    directed = [
        T.op("Not", T.op("Not", t("-print"))), T.op("Or", t("-true"), t("-print")), T.op("And", t("-false"), t("-print")),
        T.op("List", t("-print"), t("-name foo")), T.op("List", t("-name foo"), t("-print")),
        T.op("Or", T.op("And", t("-name foo"), t("-false")), T.op("Not", t("-quit"))),
        T.op("And", T.op("Or", t("-name foo"), t("-true")), T.op("List", t("-false"), t("-name foo"))),
        T.op("Not", T.op("List", T.op("Or", t("-false"), t("-fprint out")), t("-true"))),
        T.op("Or", T.op("List", t("-name foo"), t("-true")), t("-false")),
        T.op("List", T.op("Or", t("-name foo"), t("-false")), T.op("And", t("-true"), t("-name foo"))),
    ]
    trees += directed
    samples, n = [], 0
    t0 = time.process_time()
    budget = 600 if tier == "quick" else 6000
    for tree, sx in trees:
        if time.process_time() - t0 > budget:
            rep.coverage["truncated_after"] = n
            break
        # the specification: no action => as if "( tree ) -a -print" had been written
        if has_action(tree):
            meaning = tree
        else:
            meaning = Adt("Expression", "Operator", [BoxV(Adt("Operator", "And", [tree, Adt("Expression", "Action", [Adt("Action", "DefaultPrint")])]), "Rc")])
        findings, info = compare_with_meaning(B, "t%d" % n, tree, meaning, sx)
        n += 1
        for f in findings:
            report(B, rep, sx, f)
        if len(samples) < 6:
            samples.append(dict(tree=sx, has_action=has_action(tree), program=(info or {}).get("text", "")[-160:]))
    cov = B.coverage_common()
    cov.update(explanation="every tree up to %d leaves over %s x {and, or, ',', !} plus directed deeper shapes is compiled by the real "
               "code (MIR) and the emitted program executed on a symbolic file; z3 proves truth value, outputs and stop request equal to "
               "the meaning of the expression with '-a -print' appended iff it contains no action" % (max_leaves, LEAVES),
               bounds=dict(max_leaves=max_leaves, leaves=LEAVES, trees=n), samples=samples,
               sampled_larger_trees=(6000 if tier != "quick" else 0),
               outside="larger trees; other primaries (C02)", programs=n, evaluations=n, distinct_nontrivial=n)
    rep.coverage = cov
    rep.assumptions = ["runtime contract of DESIGN.md 2.3 (make-printer, call-with-relative-path, print-relative-path, lipe-scan-break)",
                       "file timestamps are not later than the compile-time clock"]


def compare_with_meaning(B, label, tree, meaning, sx):
    """compile `tree`, compare with the specification evaluated on `meaning`"""
    from . import semantics
    from spec import findsem
    # semantics.compare evaluates the specification on the tree it is given: wrap by monkeying the spec tree
    orig = findsem.Sem.eval

    class _S(findsem.Sem):
        pass
    # simplest: call compare with a custom spec tree through a small shim
    return semantics.compare_spec(B, label, tree, meaning, sx)


def report(B, rep, sx, f):
    d = B.ctx.run_native_trees([sx])[0]
    rep.violation("implicit-print:" + f["klass"], "%s: %s; program: %s" % (sx, f["text"], (d.get("scheme") or d.get("cerr") or d.get("panic") or "")[-200:].replace("\n", " ")),
                  dict(sexpr=sx, finding=f["text"], detail=f.get("detail"), native_compile=d.get("compile")))


def replay(ctx, path):
    import json
    rp = json.load(open(path))["replay"]
    d = ctx.run_native_trees([rp["sexpr"]])[0]
    print("tree=%s\ncompile=%s\n%s\nfinding: %s" % (rp["sexpr"], d.get("compile"), d.get("scheme", "")[-400:], rp.get("finding")))
    return 1
