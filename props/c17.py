# C17 -- debug and release builds behave identically.
# The crate's MIR is generated twice (debug assertions + overflow checks on / off).  For every input family the
# real parse -- and compile/scheme for Ok results -- are executed symbolically in BOTH profiles and z3 decides
# whether some input gives different results (a panic is a result).  Differences are replayed on the natively
# built debug and release drivers.
import time
import os
import z3
from .common import *
from .trees import *
from .families import families
from mirsym.stdmodel import struct_eq
from mirsym.values import Seg
from mirsym.interp import Unsupported

PID = "C17"
DEVIATIONS = {
    "size-overflow": "a -size count whose product with the unit exceeds u64 panics in the debug build and wraps to a different constant in the release build",
    "positional": "the word `nope` compiles to (UNIMPLEMENTED) in the debug build and hits todo!() in the release build",
}


def outcome_value(B, spec, assume, profile):
    """one guarded value describing everything observable: parse result, compile result, program text"""
    r = B.parse(spec, profile, extra_assume=assume)
    alts = []
    for g, v in r.alts:
        if isinstance(v, Panic):
            alts.append((g, Adt("Obs", "ParsePanic")))
        elif is_err(v):
            for g1, e in flatten_value(v.fields[0]):
                alts.append((b_and(g, g1), Adt("Obs", "ParseErr", [StringV(r.I.fmt_display(r.I, e, St()))])))
        else:
            opts, tree = v.fields[0]
            for g1, t1 in flatten_value(tree):
                gg = b_and(g, g1)
                for g0, o1 in flatten_value(opts):
                    cr = compile_tree(B, t1, o1, profile)
                    for g2, cv in cr.alts:
                        g_all = b_and(gg, g0, g2)
                        if isinstance(cv, Panic):
                            alts.append((g_all, Adt("Obs", "CompilePanic", [t1])))
                        elif is_err(cv):
                            for g3, e in flatten_value(cv.fields[0]):
                                alts.append((b_and(g_all, g3), Adt("Obs", "CompileErr", [t1, StringV(cr.I.fmt_display(cr.I, e, St()))])))
                        else:
                            for g3, ce in flatten_value(cv.fields[0]):
                                items = render(B, cr, ce)
                                # clock readings are per-call inputs, not results: normalise them
                                norm = [("clock",) if isinstance(it, Seg) and any(is_sym(it.term) and it.term.eq(t) for t in cr.I.clock_reads) else it for it in items]
                                io = ce.fields[ce.names.index("io_map")]
                                alts.append((b_and(g_all, g3), Adt("Obs", "Program", [t1, o1, RopeV(norm), io])))
    return r, alts


class RopeV:
    """a rendered program compared structurally"""
    def __init__(self, items):
        self.items = items


def rope_eq(I, a, b):
    if len(a.items) != len(b.items):
        return False
    # first pass: concrete mismatches decide without building any term
    pending = []
    for x, y in zip(a.items, b.items):
        if x is y:
            continue
        xi, yi = isinstance(x, int), isinstance(y, int)
        if xi and yi:
            if x != y:
                return False
            continue
        if isinstance(x, tuple) or isinstance(y, tuple):
            if x != y:
                return False
            continue
        xs, ys = isinstance(x, Seg), isinstance(y, Seg)
        if xs or ys:
            if not (xs and ys and x.kind == y.kind and x.arg == y.arg):
                return False
            if x.term is y.term or (is_sym(x.term) and is_sym(y.term) and x.term.eq(y.term)):
                continue
            if not is_sym(x.term) and not is_sym(y.term):
                if x.term != y.term:
                    return False
                continue
            pending.append((x.term, y.term))
            continue
        if is_sym(x) and is_sym(y) and x.eq(y):
            continue
        pending.append((x, y))
    acc = True
    for x, y in pending:
        acc = b_and(acc, I.sym_eq(x, y))
        if acc is False:
            return False
    return acc


def obs_eq(I, a, b):
    if a.variant != b.variant:
        return False
    st = St()
    if a.variant == "Program":
        r = rope_eq(I, a.fields[2], b.fields[2])          # cheapest and most discriminating first
        if r is False:
            return False
        return b_and(r, struct_eq(I, a.fields[0], b.fields[0], st), struct_eq(I, a.fields[1], b.fields[1], st),
                     io_eq(I, a.fields[3], b.fields[3], st))
    return b_and(*[struct_eq(I, x, y, st) for x, y in zip(a.fields, b.fields)])


def io_eq(I, a, b, st):
    if a.variant != b.variant:
        return False
    if a.variant == "None":
        return True
    ea, eb = a.fields[0].entries, b.fields[0].entries
    if len(ea) != len(eb):
        return False
    return b_and(*[b_and(struct_eq(I, k1, k2, st), struct_eq(I, v1, v2, st)) for (k1, v1), (k2, v2) in zip(sorted(ea, key=repr), sorted(eb, key=repr))])


def run(ctx, rep, tier):
    B = Bench(ctx, rep)
    known = {k["class"] for k in vlib.known_for(PID)}
    samples = []
    t0 = time.process_time()
    budget = 700 if tier == "quick" else 6000
    fams = list(families(tier, ("digits", "octal", "words"))) + list(families(tier, ("any", "strarg")))
    if os.environ.get("VERIF_FAMILY_ONLY"):
        fams = [f for f in fams if f[0].startswith(os.environ["VERIF_FAMILY_ONLY"])]
    if tier == "thorough":
        fams += list(families(tier, ("kwarg",)))
    n = 0
    quick_names = {n_ for n_, _, _ in list(families("quick", ("digits", "octal", "words"))) + list(families("quick", ("any", "strarg")))}
    not_decided = []
    # backslash + 8 or more octal digits (three escapes whose values each fork the escaping of the emitted text): 8 digits cost 19 min,
    # 9 did not finish in 50 min in the two-profile comparison (measured); C03 covers them for panics in both profiles
    fams = [f for f in fams if not (f[0].startswith("-printf \\") and int(f[0][9:-1]) > 7)]
    # the families of the quick tier first, then the thorough-only ones: the CPU budget then truncates the extras, never the core
    fams = [f for f in fams if f[0] in quick_names] + [f for f in fams if f[0] not in quick_names]
    for name, spec, assume in fams:
        if time.process_time() - t0 > budget:
            rep.coverage["truncated_at_family"] = name
            break
        vlib.log("[c17] family %-22s cpu=%.0fs" % (name, time.process_time() - t0))
        try:
            rd, dev = outcome_value(B, spec, assume, "dev")
            rr, rel = outcome_value(B, spec, assume, "rel")
        except (Inconclusive, ValueError) as e:
            # thorough-only family beyond the engine's capacity (path explosion): listed as not decided, not claimed
            if name not in quick_names and any(k in str(e) for k in ("too many", "step budget exceeded")):
                not_decided.append(dict(family=name, reason=str(e).splitlines()[0][-120:]))
                vlib.log("[c17] family %s NOT DECIDED: %s" % (name, str(e).splitlines()[0][-120:]))
                continue
            raise
        n += 1
        I = rd.I
        same_g = False
        for g1, a in dev:
            for g2, b in rel:
                gg = b_and(g1, g2)
                if gg is False:
                    continue
                try:
                    same_g = b_or(same_g, b_and(gg, obs_eq(I, a, b)))
                except Unsupported:
                    # a comparison the engine cannot encode matters only if both outcomes can occur together
                    if I.feasible((), b_and(gg, *list(rd.assume) + list(rr.assume))):
                        raise
        A = list(rd.assume) + [x for x in rr.assume if not any(x is y for y in rd.assume)]
        res, m = B.solve("%s:same-result" % name, A, b_not(same_g))
        if res == z3.sat:
            text = model_string(m, spec)
            confirm(B, rep, known, text)
            # look for differences outside the known classes
            kn = []
            if "size-overflow" in known:
                kn.append(b_or(*[g for g, a in dev if a.variant == "CompilePanic"]))
            if "positional" in known:
                kn.append(b_or(*[g for g, a in rel if a.variant == "CompilePanic"]))
            res2, m2 = B.solve("%s:same-result-beyond-known" % name, A, b_and(b_not(same_g), *[b_not(k) for k in kn]))
            if res2 == z3.sat:
                confirm(B, rep, set(), model_string(m2, spec))
        if len(samples) < 8:
            samples.append(dict(family=name, shape=show_spec(spec)[:60], dev_outcomes=len(dev), rel_outcomes=len(rel)))
    cov = B.coverage_common()
    cov.update(explanation="for %d input families the real parse/compile/scheme are executed from the debug-profile MIR and from the "
               "release-profile MIR; z3 decides whether any input of the family yields different observable results (tree, options, error "
               "text, program text with the clock normalised, destination table, panic)" % n,
               bounds=dict(families=n, families_not_decided_engine_capacity=not_decided), samples=samples,
               outside="optimiser-level differences (MIR is pre-LLVM; covered only by the native differential validation corpus)",
               evaluations=len(rep.queries), distinct_nontrivial=len(rep.queries))
    rep.coverage = cov


def confirm(B, rep, known, text):
    d, r = B.native_all([text])[0]
    keys = ("parse", "opts", "tree", "err", "compile", "cerr", "iomap")
    dd = {k: d.get(k) for k in keys}
    rr_ = {k: r.get(k) for k in keys}
    norm = lambda s: re.sub(r"\(- \d+ \(", "(- T (", s or "")
    dd["scheme"], rr_["scheme"] = norm(d.get("scheme")), norm(r.get("scheme"))
    if dd == rr_:
        rep.inconclusive.append("profile difference witness %r does not reproduce natively" % text)
        return
    diff = [k for k in dd if dd[k] != rr_[k]]
    klass = "profile-difference"
    if "-size" in text and d.get("compile") == "panic":
        klass = "size-overflow"
    elif "nope" in text and r.get("compile") == "panic":
        klass = "positional"
    what = "%r: debug and release differ in %s (debug %s / release %s)" % (text, diff, d.get("compile") or d.get("parse"), r.get("compile") or r.get("parse"))
    if klass in DEVIATIONS and klass in known:
        rep.violation(klass, DEVIATIONS[klass] + "; witness " + what, dict(input=text))
    else:
        rep.violation("profile-difference" if klass not in DEVIATIONS else klass + ":new", what, dict(input=text, debug=dd, release=rr_))


def replay(ctx, path):
    import json
    rp = json.load(open(path))["replay"]
    d = ctx.run_native([rp["input"]], "debug")[0]
    r = ctx.run_native([rp["input"]], "release")[0]
    print("input=%r\n debug:   %s %s %s\n release: %s %s %s" % (rp["input"], d.get("parse"), d.get("compile"), d.get("panic", ""), r.get("parse"), r.get("compile"), r.get("panic", "")))
    return 1
