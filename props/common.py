# Shared machinery of the property checks: engines per MIR profile, symbolic inputs, solver
# queries with reachability twins, native replay, validation of the encoding against the native build.
import os, random, re, sys, time
import z3
sys.path.insert(0, os.path.dirname(os.path.dirname(os.path.abspath(__file__))))
import vlib
from vlib import Inconclusive, log
from mirsym.api import Engine, make_input, sym_char, char_valid
from mirsym.interp import St, Unsupported, parse_path
from mirsym.values import *
from mirsym import stdmodel

SOLVER_TIMEOUT_MS = int(os.environ.get("VERIF_SOLVER_TIMEOUT_MS", "600000"))


def _inconclusive(msg, e, I):
    """Inconclusive that remembers the path on which a loop of the crate exceeded the engine's budget (see C03)"""
    x = Inconclusive(msg)
    if hasattr(e, "pc"):
        x.budget_pc = list(e.pc) + list(getattr(I, "assumptions", []) or []) + list(getattr(I, "definitions", []) or [])
    return x


class Bench:
    def __init__(self, ctx, rep):
        self.ctx, self.rep = ctx, rep
        self._eng = {}
        self.n_queries = 0
        self.fn_seen = set()
        self.intr_seen = set()
        self.validated = 0
        self.cvc5 = []

    def engine(self, profile="dev"):
        if profile not in self._eng:
            t = time.time()
            try:
                self._eng[profile] = Engine(self.ctx.mir(profile), self.ctx.repo(), profile)
            except Exception as e:
                raise Inconclusive("MIR front end failed (%s): %r" % (profile, e))
            log("[mirsym] %s program: %d items in %.1fs" % (profile, len(self._eng[profile].P.funcs), time.time() - t))
        return self._eng[profile]

    # ------------------------------------------------------------------ running the real code
    def parse(self, spec, profile="dev", extra_assume=()):
        """symbolically execute find_parser::parse on an input spec (list of str / z3 char terms).
        -> Run(value, assumptions, I)"""
        E = self.engine(profile)
        I = E.fresh()
        chars = [x for x in spec if not isinstance(x, str)]
        assume = [char_valid(c) for c in chars if z3.is_const(c)] + list(extra_assume)
        I.assumptions = list(assume)
        f, env = E._resolve("find_parser::parse", {"S": "&str"})
        try:
            outs = I.call_fn(f, [make_input(spec)], St(), env)
        except Unsupported as e:
            raise _inconclusive("unsupported construct while encoding parse(%s): %s" % (show_spec(spec), e), e, I)
        self.fn_seen |= I.stats["fns"]
        self.intr_seen |= I.stats["intrinsics"]
        alts = []
        for s, v in outs:
            g = b_and(*s.pc)
            if isinstance(v, Panic):
                alts.append((g, v))
            else:
                alts.extend((b_and(g, g2), x) for g2, x in alts_of(v))
        return Run(alts, assume + list(I.definitions), I, spec)

    def call(self, name, args, env=None, profile="dev", assume=(), st=None, no_merge=False):
        """symbolically execute an arbitrary crate function -> Run"""
        E = self.engine(profile)
        I = E.fresh()
        I.no_merge = no_merge
        I.assumptions = list(assume)
        f, b = E._resolve(name, env or {})
        try:
            outs = I.call_fn(f, args, st or St(), b)
        except Unsupported as e:
            raise _inconclusive("unsupported construct while encoding %s: %s" % (name, e), e, I)
        self.fn_seen |= I.stats["fns"]
        self.intr_seen |= I.stats["intrinsics"]
        alts = []
        for s, v in outs:
            g = b_and(*s.pc)
            if isinstance(v, Panic):
                alts.append((g, v, s))
            else:
                alts.extend((b_and(g, g2), x, s) for g2, x in alts_of(v))
        r = Run([(g, v) for g, v, _ in alts], list(assume) + list(I.definitions), I, None)
        r.states = [s for _, _, s in alts]
        return r

    # ------------------------------------------------------------------ solver queries
    def solve(self, name, assumptions, formula, want="unsat", timeout_ms=None):
        """check assumptions ∧ formula.  returns (result, model|None)"""
        s = z3.Solver()
        s.set("timeout", timeout_ms or SOLVER_TIMEOUT_MS)
        for a in assumptions:
            if a is True:
                continue
            s.add(a)
        if formula is False:
            r, m = z3.unsat, None
            dt = 0.0
        else:
            if formula is not True:
                s.add(formula)
            t = time.time()
            r = s.check()
            dt = time.time() - t
            m = s.model() if r == z3.sat else None
        self.n_queries += 1
        if formula is not False:            # a syntactically false goal never reaches a solver
            self.cross_check(name, s, r)
        if dt > 5 or os.environ.get("VERIF_VERBOSE"):
            log("[solve] %-50s %-7s %.1fs" % (name, r, dt))
        self.rep.query(name, str(r), dt)
        if r == z3.unknown:
            self.rep.inconclusive.append("solver returned unknown for %s (%s)" % (name, s.reason_unknown()))
        return r, m

    def cross_check(self, name, solver, r):
        """re-decide a sample of the queries with cvc5 (SMT-LIB2 export of the z3 solver state); a disagreement or an
        error line makes the run inconclusive"""
        if r not in (z3.sat, z3.unsat) or self.n_queries % 17 != 3 or len(self.cvc5) >= 12 or os.environ.get("VERIF_NO_CVC5"):
            return
        import subprocess, tempfile
        try:
            text = "(set-logic ALL)\n" + solver.sexpr() + "\n(check-sat)\n"
            with tempfile.NamedTemporaryFile("w", suffix=".smt2", dir=self.ctx.root, delete=False) as f:
                f.write(text)
                path = f.name
            out = subprocess.run(["cvc5", "--lang", "smt2", "--tlimit=20000", path], capture_output=True, text=True, timeout=40)
            ans = (out.stdout.strip().splitlines() or ["?"])[-1]
            if "(error" in out.stdout or "(error" in out.stderr:
                ans = "error"
        except Exception as e:
            ans = "unavailable"
        self.cvc5.append(dict(query=name, z3=str(r), cvc5=ans))
        if ans in ("sat", "unsat") and ans != str(r):
            self.rep.inconclusive.append("z3 and cvc5 disagree on %s (%s vs %s)" % (name, r, ans))

    def coverage_common(self):
        return dict(functions_encoded=sorted(self.fn_seen)[:400], n_functions_encoded=len(self.fn_seen),
                    intrinsics_used=sorted(self.intr_seen), validation_inputs=self.validated, cvc5_cross_check=self.cvc5)

    # ------------------------------------------------------------------ native
    def native_all(self, inputs):
        """run inputs through the debug and release builds -> list of (debug_dict, release_dict)"""
        d = self.ctx.run_native(inputs, "debug")
        r = self.ctx.run_native(inputs, "release")
        return list(zip(d, r))

    def validate_parse(self, inputs, profile="dev"):
        """concrete-mode M vs native (debug for dev, release for rel) on parse results"""
        nat = self.ctx.run_native(inputs, "debug" if profile == "dev" else "release")
        bad = []
        for text, n in zip(inputs, nat):
            try:
                m = self.concrete_parse(text, profile)
            except (Unsupported, Inconclusive) as e:
                raise Inconclusive("encoding cannot run validation input %r: %s" % (text, e))
            for k in ("parse", "opts", "tree", "err"):
                if n.get(k) != m.get(k):
                    bad.append((text, k, n.get(k), m.get(k)))
                    break
        self.validated += len(inputs)
        if bad:
            t, k, a, b = bad[0]
            raise Inconclusive("encoding disagrees with the native build on %d validation inputs, e.g. %r: %s native=%r model=%r"
                               % (len(bad), t, k, a, b))

    def concrete_parse(self, text, profile="dev"):
        run = self.parse([text], profile)
        if len(run.alts) != 1:
            raise Inconclusive("concrete run produced %d outcomes for %r" % (len(run.alts), text))
        return render_parse_result(run.I, run.alts[0][1])


class Run:
    def __init__(self, alts, assume, I, spec):
        self.alts, self.assume, self.I, self.spec = alts, assume, I, spec

    def guard(self, pred):
        """disjunction of the guards of all outcomes satisfying pred(value)"""
        return b_or(*[g for g, v in self.alts if pred(v)])

    def panics(self):
        return [(g, v) for g, v in self.alts if isinstance(v, Panic)]


def is_ok(v):
    return isinstance(v, Adt) and v.ty == "Result" and v.variant == "Ok"


def is_err(v):
    return isinstance(v, Adt) and v.ty == "Result" and v.variant == "Err"


def show_spec(spec):
    return "".join(x if isinstance(x, str) else "?" for x in spec)


def text_of(items):
    return "".join(chr(c) if isinstance(c, int) else "{%s}" % c for c in items)


def render_parse_result(I, v):
    st = St()
    if isinstance(v, Panic):
        return dict(parse="panic", panic=v.msg)
    if v.variant == "Ok":
        opts, tree = v.fields[0]
        return dict(parse="ok", opts=text_of(I.fmt_debug(I, opts, st)), tree=text_of(I.fmt_debug(I, tree, st)))
    return dict(parse="err", err=text_of(I.fmt_display(I, v.fields[0], st)))


def model_char(m, c, default=ord("a")):
    if isinstance(c, int):
        return c
    v = m.eval(c, model_completion=False)
    if z3.is_bv_value(v):
        return v.as_long()
    v = m.eval(c, model_completion=True)
    return v.as_long()


def model_string(m, spec):
    """instantiate an input spec with a model -> str"""
    out = []
    for x in spec:
        if isinstance(x, str):
            out.append(x)
        else:
            cp = model_char(m, x)
            if cp >= 0x110000 or 0xD800 <= cp <= 0xDFFF:
                cp = ord("a")
            out.append(chr(cp))
    return "".join(out)


def eval_guard(m, g):
    if g is True or g is False:
        return g
    return z3.is_true(m.eval(g, model_completion=True))


def pick_alt(m, alts):
    """the alternative of a guarded list selected by model m"""
    for g, v in alts:
        if eval_guard(m, g):
            return v
    return None


def concretize(m, v):
    """instantiate a symbolic value with a model (for reporting)"""
    if isinstance(v, Union):
        x = pick_alt(m, v.alts)
        return concretize(m, x) if x is not None else v
    if is_sym(v):
        r = m.eval(v, model_completion=True)
        if z3.is_bv_value(r):
            return r.as_long()
        if z3.is_true(r):
            return True
        if z3.is_false(r):
            return False
        return r
    if isinstance(v, tuple):
        return tuple(concretize(m, x) for x in v)
    if isinstance(v, Adt):
        return Adt(v.ty, v.variant, [concretize(m, x) for x in v.fields])
    if isinstance(v, Struct):
        return Struct(v.ty, v.names, [concretize(m, x) for x in v.fields])
    if isinstance(v, VecV):
        return VecV([concretize(m, x) for x in v.items])
    if isinstance(v, StringV):
        return StringV([concretize(m, x) if not isinstance(x, Seg) else x for x in v.items])
    if isinstance(v, (BoxV,)):
        return BoxV(concretize(m, v.v), v.kind)
    if isinstance(v, ValRef):
        return ValRef(concretize(m, v.v))
    return v


# ----------------------------------------------------------------------------- corpora
def repo_test_inputs(repo_dir):
    """string literals passed to parse(..)/lex(..)/parse_and_compile(..) in the repository's own tests"""
    out = []
    for d, _, fs in os.walk(os.path.join(repo_dir, "src")):
        for f in fs:
            if f.endswith(".rs"):
                t = open(os.path.join(d, f)).read()
                for m in re.finditer(r'\b(?:parse|lex|parse_and_compile|token)\(\s*(?:&mut\s+)?"((?:[^"\\]|\\.)*)"', t):
                    s = m.group(1)
                    try:
                        s = bytes(s, "utf-8").decode("unicode_escape")
                    except Exception:
                        continue
                    if s not in out:
                        out.append(s)
    return out


BASE_CORPUS = [
    "", "   ", "-true", "-false", "-name foo", "-true -o -false", "! ( -true -a -false )", "-size +3k", "-size -20c",
    "-perm 644", "-perm 0777", "-perm u+x,g-w", "-perm /u=rw", "-perm -a+x", "-perm 7", "-perm u@r", "-amin 44", "-atime 3h",
    "-mtime +7d", "-ctime 1x", "-bogus", "-amin", "-amin test", "-depth -print", "-printf 'a%pb\\n'", "-type f,d", "-type fd",
    "-fprint x", "-true -false , -print", "-a", "( -true", "-true )", "()", "-uid 99999999999", "-uid 4294967295", "-size 12Q",
    "-name 'a b' -print0", "-fprintf out.txt \"%p %s\\n\"", "-xattr-match a b", "-xattr-match a", "-ls-ls", "-nouser", "-nogroup",
    "-threads 4 -print", "-true -threads 4", "-iname \"Foo*\"", "-links +2", "-name", "-printf '%A@%CY%Tk'", "-printf '%q'",
    "-printf '\\a\\b\\n\\101\\x'", "-printf ''", "! ! -true", "! , -true", "-true -a", "-o -true", "-a-true", "-amin44",
    "-threads 2 -threads 5 -name x -threads 7", "-maxdepth -44", "nope", "-true nope", "-name foo\t-print", "-name foo\n-print",
    "-anewer f", "-regex r -iregex R", "-empty -executable", "-print-file-fid", "-prune", "-quit", "-ls", "-fls out",
    "-fprint0 out", "-printf '%{fid}%{projid}%{xattr:foo}'", "-size 18446744073709551616", "-perm 0777x", "-perm u+x,",
    "-pool p1", "-xattr user.a", "-path ./x/y", "-ipath \"X*\"", "é", "-name é",
]


def validation_corpus(ctx, extra=(), seed=0, n_random=40):
    rnd = random.Random(seed)
    words = ["-true", "-false", "-print", "-name x", "-size +1k", "(", ")", "!", ",", "-a", "-o", "-and", "-or", "-uid 0",
             "-type d", "-perm 700", "-depth", "-threads 3", "-quit", "-printf '%p\\n'", "-bogus", "-mmin -5"]
    rand = []
    for _ in range(n_random):
        k = rnd.randint(1, 6)
        rand.append(" ".join(rnd.choice(words) for _ in range(k)))
    out = []
    for s in list(repo_test_inputs(ctx.repo())) + BASE_CORPUS + list(extra) + rand:
        if s not in out and "\x00" not in s:
            out.append(s)
    return out
