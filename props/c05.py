# C05 -- every primary and its argument language is recognised exactly.
# The real lexer/parser (MIR) is executed on
#   (A) every keyword followed by 0..3 symbolic word characters (keyword identity, prefixes/extensions, unknown
#       words), alone and with the keyword's canonical argument,
#   (B) every argument-taking keyword followed by an argument word of k symbolic characters,
# and z3 compares the outcome with the vocabulary table of spec/vocab.py: Ok with exactly the specified node and
# values iff the word(s) are in the language, Err otherwise.
import time
import z3
from .common import *
from spec import vocab as V
from mirsym.stdmodel import struct_eq

PID = "C05"
DEVIATIONS = {
    "swapped-nouser-nogroup": "-nouser builds Test::NoGroup and -nogroup builds Test::NoUser",
    "perm-trailing-junk": "junk after a valid -perm prefix is accepted and dropped (-perm 777x, -perm u+x,)",
    "glued-primaries": "a nullary primary directly followed by another token without a blank is accepted as two primaries (-true-ls)",
    "nope": "the word `nope` is accepted as a positional option",
}
CANON = {"str": "ab", "u32cmp": "7", "u64cmp": "7", "u32": "7", "size": "7", "types": "f", "perm": "644", "format": "'x'", "str str": "a b",
         "str format": "a 'x'"}


def wordchar(c):
    return z3.And(c != 32, c != 10, c != 9, c != 13, c != 41, c != 40, c != 39, c != 34, c != ord(","), c != ord("!"), z3.UGE(c, 33), z3.ULE(c, 126))


def impl_tree(run):
    """guarded: the tree of an Ok result / ERR marker / PANIC marker"""
    alts = []
    for g, v in run.alts:
        if isinstance(v, Panic):
            alts.append((g, Adt("Spec", "Panic")))
        elif is_ok(v):
            alts.append((g, v.fields[0][1]))
        else:
            alts.append((g, V.NOT_IN_LANGUAGE))
    return merge_many(alts)


def canon_kind(kind):
    return "time" if isinstance(kind, tuple) else kind


def canon_arg(kw):
    kind = V.VOCAB[kw][2]
    return CANON["7" if False else ("size" if isinstance(kind, tuple) else kind)]


def expected_for_word(kw_chars, rest_args, dev):
    """the whole word W (keyword + symbolic tail) is looked up in the vocabulary; `rest_args` is the concrete argument
    text that follows (or None).  -> guarded expected tree / NOT_IN_LANGUAGE"""
    alts = []
    matched = False
    n = len(kw_chars)
    for w, (cat, variant, kind) in V.VOCAB.items():
        if len(w) != n:
            continue
        g = b_and(*[V.ceq(c, ch) for c, ch in zip(kw_chars, w)])
        if g is False:
            continue
        matched = b_or(matched, g)
        if cat == "Global":
            # options are not tree nodes: alone they leave -true
            if kind is None and rest_args is None:
                alts.append((g, Adt("Expression", "Test", [Adt("Test", "True")])))
            elif kind is not None and rest_args is not None and rest_args.isdigit() and w == "-threads":
                alts.append((g, Adt("Expression", "Test", [Adt("Test", "True")])))
            else:
                alts.append((g, V.NOT_IN_LANGUAGE if not (w in ("-maxdepth", "-mindepth") and rest_args and rest_args.isdigit()) else Adt("Spec", "DepthLimit")))
            continue
        if kind is None:
            if rest_args is None:
                variant2 = variant
                if "swapped-nouser-nogroup" in dev and w in ("-nouser", "-nogroup"):
                    variant2 = {"NoUser": "NoGroup", "NoGroup": "NoUser"}[variant]
                alts.append((g, V.node_for(w, []) if variant2 == variant else Adt("Expression", "Test", [Adt("Test", variant2)])))
            else:
                alts.append((g, Adt("Spec", "TwoPrimaries")))        # "K ARG": ARG is then another word; not compared here
            continue
        if rest_args is None:
            alts.append((g, V.NOT_IN_LANGUAGE))       # argument missing
            continue
        if kind in ("format", "str format", "str str"):
            alts.append((g, Adt("Spec", "NotCompared")))
            continue
        arg_chars = [ord(c) for c in rest_args]
        vals = V.argument(kind, arg_chars, dev)
        hit = [(gv, fields) for gv, fields in vals if gv is not False]
        if hit:
            alts.append((g, V.node_for(w, hit[0][1])))
        else:
            alts.append((g, V.NOT_IN_LANGUAGE))
    alts.append((b_not(matched), V.NOT_IN_LANGUAGE))
    return merge_many(alts)


def run(ctx, rep, tier):
    B = Bench(ctx, rep)
    known = {k["class"] for k in vlib.known_for(PID)}
    dev = tuple(d for d in DEVIATIONS if d in known)
    q = tier == "quick"
    B.validate_parse(validation_corpus(ctx, seed=rep.seed, n_random=20) + ["-nouser", "-nogroup", "-perm 777x", "-true-ls", "nope", "-print0", "-printf",
                                                                          "-fprint0 a", "-xattr a", "-amin 5", "-a", "-true -and -false"])
    samples = []
    t0 = time.process_time()
    budget = 700 if q else 9000
    st = St()
    # ------------------------------------------------------------- (A) keyword identity
    kws = list(V.VOCAB) + ["-a", "-o", "-and", "-or", "-no", "-x", "no", "nop", "nope", "-"]
    for kw in kws:
        if time.process_time() - t0 > budget * 0.5:
            rep.coverage["truncated_A_at"] = kw
            break
        for k in ((0, 1, 3) if q else (0, 1, 2, 3, 4)):
            cs = [sym_char() for _ in range(k)]
            asm = [wordchar(c) for c in cs]
            word = [ord(c) for c in kw] + cs
            variants = [(None, "")]
            if kw in V.VOCAB and V.VOCAB[kw][2] is not None and k <= 1:
                variants.append((canon_arg(kw), " " + canon_arg(kw)))
            for rest, tail in variants:
                r = B.parse([kw] + cs + [tail], extra_assume=asm)
                impl = impl_tree(r)
                exp = expected_for_word(word, rest, dev)
                # alternatives the table does not compare
                skip = b_or(struct_eq(r.I, exp, Adt("Spec", "NotCompared"), st), struct_eq(r.I, exp, Adt("Spec", "TwoPrimaries"), st),
                            struct_eq(r.I, exp, Adt("Spec", "DepthLimit"), st))
                # known deviation: glued primaries (a complete nullary primary followed by further tokens)
                glue = False
                if "glued-primaries" in dev and k >= 1:
                    for w in V.NULLARY + ["-depth"]:
                        if len(w) < len(word) and len(w) >= len(kw):
                            glue = b_or(glue, b_and(*[V.ceq(c, ch) for c, ch in zip(word, w)]))
                    if kw in V.NULLARY or kw == "-depth":
                        glue = True if k >= 1 else glue
                if "nope" in dev:
                    glue = b_or(glue, b_and(*[V.ceq(c, ch) for c, ch in zip(word, "nope")]) if len(word) >= 4 else False)
                bad = b_and(b_not(struct_eq(r.I, impl, exp, st)), b_not(skip))
                tag = "A:%s+%d%s" % (kw, k, "+arg" if rest else "")
                res, m = B.solve(tag, r.assume, b_and(bad, b_not(glue)))
                if res == z3.sat:
                    report(B, rep, model_string(m, [kw] + cs + [tail]), concretize(m, exp), "keyword")
                if glue is not False and glue is not True or (glue is True and k >= 1):
                    res2, m2 = B.solve(tag + ":known:glued", r.assume, b_and(bad, glue))
                    if res2 == z3.sat:
                        t = model_string(m2, [kw] + cs + [tail])
                        d = B.ctx.run_native([t], "debug")[0]
                        if d.get("parse") == "ok":
                            cls = "nope" if "nope" in t else "glued-primaries"
                            rep.violation(cls, DEVIATIONS[cls] + "; witness %r -> %s" % (t, re.sub(r"\s+", " ", d.get("tree", ""))), dict(input=t))
        if len(samples) < 6:
            samples.append(dict(check="keyword identity", keyword=kw, tail_lengths=[0, 1, 3] if q else [0, 1, 2, 3, 4]))
    # swapped keywords are shown by the strict table
    if "swapped-nouser-nogroup" in dev:
        for w in ("-nouser", "-nogroup"):
            d = B.ctx.run_native([w], "debug")[0]
            want = {"-nouser": "NoUser", "-nogroup": "NoGroup"}[w]
            r = B.parse([w])
            res, m = B.solve("A:%s:strict" % w, r.assume, b_not(struct_eq(r.I, impl_tree(r), V.node_for(w, []), st)))
            if res == z3.sat and want not in d.get("tree", ""):
                rep.violation("swapped-nouser-nogroup", DEVIATIONS["swapped-nouser-nogroup"] + "; witness %s -> %s" % (w, d.get("tree")), dict(input=w))
    # ------------------------------------------------------------- (B) argument languages
    for kw, (cat, variant, kind) in V.VOCAB.items():
        if kind in (None, "format", "str format", "str str") or cat == "Global":
            continue
        if time.process_time() - t0 > budget:
            rep.coverage["truncated_B_at"] = kw
            break
        lens = {"str": (1, 2), "types": (1, 2, 3), "perm": (3, 4, 5)}.get(kind, (1, 2, 3))
        if not q:
            lens = {"str": (1, 2, 3), "types": (1, 2, 3, 4, 5), "perm": (3, 4, 5, 6, 7)}.get(kind, (1, 2, 3, 4))
        if q and kw not in ("-uid", "-links", "-size", "-mtime", "-amin", "-type", "-perm", "-name", "-fprint", "-pool"):
            continue
        for k in lens:
            cs = [sym_char() for _ in range(k)]
            asm = [wordchar(c) for c in cs]
            if kind == "str":
                # a string argument is any run of characters up to the next ASCII blank or ')': every other code point belongs to it
                asm = [z3.And(char_valid(c), c != 32, c != 10, c != 9, c != 13, c != 41, c != 39, c != 34) for c in cs]
            if kind == "perm":
                asm += [z3.Or(*[c == ord(x) for x in "01234567ugoarwx+-=,/z"]) for c in cs]       # restrict to the interesting alphabet
            r = B.parse([kw + " "] + cs, extra_assume=asm)
            impl = impl_tree(r)
            vals = V.argument(kind, cs, dev)
            in_lang = b_or(*[g for g, _ in vals])
            exp = merge_many([(g, V.node_for(kw, f)) for g, f in vals] + [(b_not(in_lang), V.NOT_IN_LANGUAGE)])
            bad = b_not(struct_eq(r.I, impl, exp, st))
            # known: junk after a valid -perm prefix; glued tokens after an argument (needs '-' or a letter-start keyword)
            excl = []
            if kind == "perm" and "perm-trailing-junk" in dev:
                pre_ok = False
                for j in range(3, k):
                    pre_ok = b_or(pre_ok, *[g for g, _ in V.argument(kind, cs[:j], dev)])
                excl.append(pre_ok)
            if "glued-primaries" in dev:
                excl.append(b_or(*[c == ord("-") for c in cs[1:]]))
            res, m = B.solve("B:%s:k%d" % (kw, k), r.assume, b_and(bad, *[b_not(e) for e in excl]))
            if res == z3.sat:
                report(B, rep, model_string(m, [kw + " "] + cs), concretize(m, exp), "argument")
            if kind == "perm" and excl and excl[0] is not False:
                res2, m2 = B.solve("B:%s:k%d:known:junk" % (kw, k), r.assume, b_and(bad, excl[0]))
                if res2 == z3.sat:
                    t = model_string(m2, [kw + " "] + cs)
                    d = B.ctx.run_native([t], "debug")[0]
                    if d.get("parse") == "ok":
                        rep.violation("perm-trailing-junk", DEVIATIONS["perm-trailing-junk"] + "; witness %r -> %s" % (t, d.get("tree")), dict(input=t))
        if len(samples) < 12:
            samples.append(dict(check="argument language", keyword=kw, kind=str(kind), word_lengths=list(lens)))
    # ------------------------------------------------------------- (B') long numeric arguments: in the language only if the value fits
    LONG = {"-uid": (10, 11), "-stripe-count": (10,), "-links": (20, 21), "-size": (17, 20), "-mtime": (20,)} if q else \
           {"-uid": (10, 11, 12), "-gid": (10,), "-inum": (10, 11), "-mirror-count": (10,), "-stripe-count": (10, 11), "-links": (20, 21, 22),
            "-size": (16, 17, 18, 20, 21), "-mtime": (20, 21), "-amin": (20,)}
    for kw, lens in LONG.items():
        cat, variant, kind = V.VOCAB[kw]
        for k in lens:
            cs = [sym_char() for _ in range(k)]
            unit_ok = z3.Or(*[cs[-1] == ord(x) for x in "0123456789bcwkMGTsmhd"])
            asm = [z3.And(z3.UGE(c, 48), z3.ULE(c, 57)) for c in cs[:-1]] + [unit_ok]
            r = B.parse([kw + " "] + cs, extra_assume=asm)
            impl = impl_tree(r)
            vals = V.argument(kind, cs, dev)
            in_lang = b_or(*[g for g, _ in vals])
            exp = merge_many([(g, V.node_for(kw, f)) for g, f in vals] + [(b_not(in_lang), V.NOT_IN_LANGUAGE)])
            res, m = B.solve("B':%s:k%d" % (kw, k), r.assume, b_not(struct_eq(r.I, impl, exp, st)))
            if res == z3.sat:
                report(B, rep, model_string(m, [kw + " "] + cs), concretize(m, exp), "argument")
        if len(samples) < 16:
            samples.append(dict(check="long numeric argument", keyword=kw, digits=list(lens)))
    # ------------------------------------------------------------- (C) format-string arguments of -printf / -fprintf
    from spec import formatspec
    dev14 = tuple(k_["class"] for k_ in vlib.known_for("C14"))
    for kwtext, variant in (("-printf '", "PrintFormatted"), ("-fprintf out '", "FilePrintFormatted")):
        for dct in ["%p", "%%", "%Ak", "%{fid}", "\\n", "\\012", "\\101", "\\033", "\\0", "\\\\", "\\q"]:
            c1, c2 = sym_char(), sym_char()
            chars = [c1] + [ord(x) for x in dct] + [c2]
            asm = [c1 != 39, c2 != 39]
            r = B.parse([kwtext, c1, dct, c2, "'"], extra_assume=asm)
            alts = []
            for g, v in r.alts:
                if isinstance(v, Panic):
                    alts.append((g, Adt("Spec", "Panic")))
                elif is_ok(v):
                    for g2, t in flatten_value(v.fields[0][1]):
                        a_ = t.fields[0] if t.variant == "Action" else None
                        if a_ is not None and a_.variant == variant:
                            alts.append((b_and(g, g2), a_.fields[-1]))
                        else:
                            alts.append((b_and(g, g2), Adt("Spec", "Other")))
                else:
                    alts.append((g, formatspec.ERR))
            impl = merge_many(alts)
            exp = merge_many(formatspec.scan(chars, dev14))
            sil = struct_eq(r.I, exp, formatspec.SILENT, st)
            res, m = B.solve("C:%s%s" % (kwtext, dct), r.assume, b_and(b_not(struct_eq(r.I, impl, exp, st)), b_not(sil)))
            if res == z3.sat:
                report(B, rep, model_string(m, [kwtext, c1, dct, c2, "'"]), Adt("Action", variant, [concretize(m, exp)]) if not isinstance(concretize(m, exp), Adt) else concretize(m, exp), "format-argument")
    # ------------------------------------------------------------- (D) word boundaries after a quoted argument; second argument of two-argument primaries
    def blank(c):
        return z3.Or(c == 32, c == 9, c == 10, c == 13)
    for kw, shape in (("-name", "unary"), ("-fprint", "unary"), ("-xattr-match", "str"), ("-fprintf", "format")):
        for quote in ('"', "'"):
            for k in ((1, 2) if q else (1, 2, 3, 4)):
                if shape == "unary" and k > 3:
                    continue          # four characters can hold a blank and a whole further primary (' -ls'): a legitimate Ok
                cs = [sym_char() for _ in range(k)]
                if shape == "format":
                    asm = [z3.Or(blank(c), z3.And(z3.UGE(c, 97), z3.ULE(c, 122))) for c in cs]
                else:
                    asm = [z3.Or(blank(c), wordchar(c)) for c in cs]
                head = "%s %sab%s" % (kw, quote, quote)
                r = B.parse([head] + cs, extra_assume=asm)
                impl = impl_tree(r)
                first = StringV([97, 98])
                alts = []
                if shape == "unary":
                    alts.append((b_and(*[blank(c) for c in cs]), V.node_for(kw, [first])))
                else:
                    for i in range(1, k):
                        for j in range(1, k - i + 1):
                            g = b_and(*[blank(c) for c in cs[:i]], *[z3.Not(blank(c)) for c in cs[i:i + j]], *[blank(c) for c in cs[i + j:]])
                            w = cs[i:i + j]
                            if shape == "str":
                                alts.append((g, V.node_for(kw, [first, StringV(w)])))
                            else:
                                for gf, fv in formatspec.scan(w, dev14):
                                    alts.append((b_and(g, gf), V.node_for(kw, [first, fv]) if isinstance(fv, VecV) else V.NOT_IN_LANGUAGE))
                inl = b_or(*[g for g, _ in alts])
                exp = merge_many(alts + [(b_not(inl), V.NOT_IN_LANGUAGE)])
                res, m = B.solve("D:%s:%s:k%d" % (kw, quote, k), r.assume, b_not(struct_eq(r.I, impl, exp, st)))
                if res == z3.sat:
                    report(B, rep, model_string(m, [head] + cs), concretize(m, exp), "argument-boundary")
        if len(samples) < 20:
            samples.append(dict(check="text glued to / following a quoted argument", keyword=kw, tail_lengths=[1, 2] if q else [1, 2, 3, 4]))
    cov = B.coverage_common()
    cov.update(explanation="(A) every keyword of the vocabulary (and operator / near-miss words) followed by 0..3 (4) symbolic word characters, alone "
               "and with its canonical argument: the whole word is looked up in the specification table; (B) argument-taking keywords followed "
               "by an argument word of k symbolic characters, compared with the table's argument recognisers (signed counts, sizes/times with "
               "units, type lists, octal and symbolic modes, words); (D) a quoted argument followed by 1..2 (4) symbolic characters (blank or word character) for one- and two-argument primaries: Ok exactly for blanks / blanks+second argument; z3 decides equality of the tree (or rejection) for every word",
               bounds=dict(tail_len=3 if q else 4, argument_len="1..3 (perm 3..5)" if q else "1..4 (perm 3..7, types 1..5)"), samples=samples,
               outside="quoting styles (C06), format strings (C14), numeric range (C07); two-argument primaries: quoted first argument 'ab' followed by 1..2 (4) characters",
               evaluations=len(rep.queries), distinct_nontrivial=len(rep.queries))
    rep.coverage = cov


def tree_text(B, v):
    if isinstance(v, Adt) and v.ty == "Spec":
        return "err" if v.variant == "NotInLanguage" else v.variant
    I = B.engine("dev").I
    try:
        return text_of(I.fmt_debug(I, v, St()))
    except Exception:
        return None


def report(B, rep, text, exp, what):
    d = B.ctx.run_native([text], "debug")[0]
    want = tree_text(B, exp)
    got = d.get("tree") if d.get("parse") == "ok" else d.get("parse")
    if want is not None and re.sub(r"\s+", "", got or "") == re.sub(r"\s+", "", want):
        rep.inconclusive.append("counterexample %r does not reproduce natively" % text)
        return
    rep.violation("vocabulary:" + what, "%r: native %s, vocabulary table says %s" % (text, re.sub(r"\s+", " ", got or ""), want), dict(input=text, expected=want, native=d))


def replay(ctx, path):
    import json
    rp = json.load(open(path))["replay"]
    d = ctx.run_native([rp["input"]], "debug")[0]
    print("input=%r native=%s expected=%s" % (rp["input"], d.get("tree") or d.get("parse"), rp.get("expected")))
    return 1
