# C20 -- compile once, render for any device: only the device path varies.
# CompiledExpression::scheme(&self, mdt) is executed from MIR on compiled values (obtained from the real compile
# for a set of expressions) with device paths of k symbolic code points:
#   * rendering twice for the same path gives identical ropes; the compiled value and its io_map are unchanged
#     (the receiver is a shared reference: any write through it makes the interpreter stop as unsupported);
#   * ropes for two different symbolic paths are identical outside the path segment;
#   * the path characters sit in exactly one string literal that decodes to the path  (usertext.analyze + z3).
import z3
from .common import *
from .trees import *
from .usertext import analyze, structure_of
from scheme.reader import read_all, ReadError, Str, Sym

PID = "C20"
EXPRS = ["-true", "-name foo -print", "-mmin -3 -o -print0", "-fprint out -printf '%p\\n' -atime +1", "-mtime -3 -iname 'a*' , -quit",
         "-uid 5 -threads 3", "-size +3k -o -print0"]


def render_with(B, run, ce, path_items):
    I = run.I
    E = B.engine(I.profile)
    f, env = E._resolve("CompiledExpression::scheme", {"S": "&str"})
    buf = SymBuf(path_items, name="mdt")
    from mirsym.fmtmodel import new_cell
    I.expand_debug_chars = True           # a path formatted with {:?} is followed character class by character class
    st = St()
    key = new_cell(st, ce)            # a cell, not a snapshot: interior mutability stays visible
    outs = I.call_fn(f, [Ref(key, ()), StrSlice(buf, 0, len(path_items))], st, env)
    alts = []
    for s_, v in outs:
        if isinstance(v, Panic):
            raise Inconclusive("scheme() panicked")
        g = b_and(*s_.pc)
        for g2, x in alts_of(v):
            alts.append((b_and(g, g2), x.items))
    return alts


def render_history(B, run, ce, paths):
    """render the SAME compiled expression (held in a store cell, so that interior mutability is tracked) for each path in
    turn -> [(guard, rope of the last rendering, compiled value afterwards)]"""
    from mirsym.fmtmodel import new_cell
    I = run.I
    I.expand_debug_chars = True
    E = B.engine(I.profile)
    f, env = E._resolve("CompiledExpression::scheme", {"S": "&str"})
    st = St()
    key = new_cell(st, ce)
    states = [(st, None)]
    for path_items in paths:
        buf = SymBuf(path_items, name="mdt")
        nxt = []
        for s0, _ in states:
            for s1, v in I.call_fn(f, [Ref(key, ()), StrSlice(buf, 0, len(path_items))], s0, env):
                if isinstance(v, Panic):
                    raise Inconclusive("scheme() panicked in a render sequence")
                nxt.append((s1, v))
        states = nxt
    out = []
    for s1, v in states:
        g = b_and(*s1.pc)
        for g2, x in alts_of(v):
            out.append((b_and(g, g2), x.items, s1.store[key]))
    return out


def run(ctx, rep, tier):
    B = Bench(ctx, rep)
    known = {k["class"] for k in vlib.known_for(PID)}
    T = Trees(B)
    kmax = 2 if tier == "quick" else 4
    samples = []
    cases = [(t, None) for t in (EXPRS if tier == "thorough" else EXPRS[:4])]
    # expressions carrying a user string of symbolic characters (a generator that assembles the program around
    # markers would confuse user text with the device slot: the solver finds the marker text by itself)
    for nsym in ((3, 5) if tier == "quick" else (2, 3, 5, 6)):
        cases.append(("-name '%s' -print" % ("?" * nsym), nsym))
    for text, nsym in cases:
        if nsym is None:
            pr = B.parse([text])
            uchars, uassume = [], []
        else:
            uchars = [sym_char() for _ in range(nsym)]
            uassume = [z3.And(c != 39, c != 34, c != 92, z3.UGE(c, 33), z3.ULE(c, 126)) for c in uchars]
            pr = B.parse(["-name '"] + uchars + ["' -print"], extra_assume=uassume)
        oks = [(g, v) for g, v in pr.alts if is_ok(v)]
        if not oks:
            raise Inconclusive("expression %r does not parse" % text)
        progs = []
        for g, v in oks:
            opts, tree = v.fields[0]
            for g1, t1 in flatten_value(tree):
                cr = compile_tree(B, t1, opts)
                cr.I.assumptions = list(pr.assume) + [b_and(g, g1)]
                for g2, cv in cr.alts:
                    if is_ok(cv):
                        for g3, ce in flatten_value(cv.fields[0]):
                            progs.append((b_and(g, g1, g2, g3), cr, ce))
        for gprog, cr, ce in progs:
          if is_sym(gprog):
              chk = z3.Solver()
              chk.add(*[a for a in pr.assume if a is not True])
              chk.add(gprog)
              if chk.check() == z3.unsat:
                  continue                 # an alternative of the compile result that no input of this family reaches
          for k in range(0, kmax + 1):
            p = [sym_char() for _ in range(k)]
            q = [sym_char() for _ in range(k)]
            # benign paths: the known unescaped-path defect is decided separately below
            passume = [z3.And(c != 34, c != 92, z3.UGE(c, 33), z3.ULE(c, 126)) for c in p + q] + list(pr.assume) + [gprog]
            cr.I.assumptions = passume
            A1, A2, AQ = render_with(B, cr, ce, p), render_with(B, cr, ce, p), render_with(B, cr, ce, q)
            tag = "%s:k%d" % (text, k)
            bad_same, bad_diff = False, False
            for (g1, rp1), (g2, rp2) in zip(A1, A2):
                if not (len(rp1) == len(rp2) and all(same(a, b) for a, b in zip(rp1, rp2))):
                    bad_same = b_or(bad_same, g1)
            if len(A1) != len(A2):
                bad_same = True
            for g1, rp1 in A1:
                for gq, rq in AQ:
                    ok_diff = len(rp1) == len(rq)
                    pos = []
                    if ok_diff:
                        for i, (a, b) in enumerate(zip(rp1, rq)):
                            if same(a, b):
                                continue
                            if is_sym(a) and is_sym(b) and any(a.eq(x) for x in p) and any(b.eq(y) for y in q):
                                pos.append(i)
                            else:
                                ok_diff = False
                        ok_diff = (ok_diff and pos == list(range(pos[0], pos[0] + k))) if pos else (ok_diff and k == 0)
                    if not ok_diff:
                        bad_diff = b_or(bad_diff, b_and(g1, gq))
            for cname, bad in (("same-path-same-text", bad_same), ("differs-only-in-path-segment", bad_diff)):
                res, m = B.solve(tag + ":" + cname, passume, bad)
                if res == z3.sat:
                    expr = text if nsym is None else "-name '%s' -print" % "".join(chr(model_char(m, c)) for c in uchars)
                    pa = "".join(chr(model_char(m, c)) for c in p)
                    qa = "".join(chr(model_char(m, c)) for c in q)
                    confirm_diff(B, rep, expr, pa, qa, cname)
            # histories: the same compiled expression rendered for p and then for q gives what a first rendering for q gives
            if k >= 1 and (tier == "thorough" or k <= 2):
                bad_hist = False
                for kp in sorted({k, max(1, k - 1), k + 1}):
                    p2 = [sym_char() for _ in range(kp)]
                    hassume = passume + [z3.And(c != 34, c != 92, z3.UGE(c, 33), z3.ULE(c, 126)) for c in p2]
                    cr.I.assumptions = hassume
                    H = render_history(B, cr, ce, [p2, q])
                    bad_hist = False
                    for gh, rh, _ in H:
                        match = False
                        for gq, rq in AQ:
                            if len(rh) == len(rq) and all(same(a, b) for a, b in zip(rh, rq)):
                                match = b_or(match, gq)
                        bad_hist = b_or(bad_hist, b_and(gh, b_not(match)))
                    res, m = B.solve("%s:after-k%d:render-history" % (tag, kp), hassume, bad_hist)
                    if res == z3.sat:
                        expr = text if nsym is None else "-name '%s' -print" % "".join(chr(model_char(m, c)) for c in uchars)
                        pa = "".join(chr(model_char(m, c)) for c in p2)
                        qa = "".join(chr(model_char(m, c)) for c in q)
                        confirm_history(B, rep, expr, pa, qa)
                cr.I.assumptions = passume
            # the segment is one string literal decoding to the path: solver query over the path characters
            if k and nsym is None:
                # rendered for ARBITRARY path characters (an escaping generator yields one rope per escaping pattern)
                assume = [char_valid(c) for c in p] + list(pr.assume) + [gprog]
                cr.I.assumptions = assume
                cr.I.expand_debug_chars = True         # a path formatted with {:?} is followed character class by character class
                AP = render_with(B, cr, ce, p)
                cr.I.expand_debug_chars = False
                cr.I.assumptions = passume
                bad_data, broken = False, False
                for gA, rpA in AP:
                    a = analyze(rpA, p)
                    if a["error"]:
                        bad_data = b_or(bad_data, gA)
                        continue
                    # the first argument of lipe-scan is one string literal that DECODES to the path (semantically: an escaped
                    # rendering such as \\n for a newline is right), and the path characters occur in no other literal
                    lits = {id(s_): s_ for _, _, s_ in a["occurrences"]}
                    decoded_ok = False
                    try:
                        scan = find_scan(read_all(rpA))
                        if scan is not None and isinstance(scan[1], Str) and len(scan[1].items) == k and len(lits) <= 1:
                            decoded_ok = True
                            for x, y in zip(scan[1].items, p):
                                if x is y or (is_sym(x) and x.eq(y)):
                                    continue
                                if isinstance(x, int):
                                    decoded_ok = b_and(decoded_ok, y == x)
                                elif is_sym(x):
                                    decoded_ok = b_and(decoded_ok, x == y)
                                else:
                                    decoded_ok = False
                                    break
                    except ReadError:
                        pass
                    broken = b_or(broken, b_and(gA, b_not(decoded_ok)))
                    bad_data = b_or(bad_data, b_and(gA, a["bad"]))
                res0, m0 = B.solve(tag + ":path-is-the-scan-literal", assume, broken)
                if res0 == z3.sat:
                    path = "".join(chr(model_char(m0, c)) for c in p)
                    d = B.ctx.run_native([(text, path)], "debug")[0]
                    ok_native = False
                    try:
                        sc = find_scan(read_all([ord(ch) for ch in d.get("scheme", "")]))
                        ok_native = sc is not None and isinstance(sc[1], Str) and sc[1].text() == path
                    except ReadError:
                        pass
                    if ok_native:
                        rep.inconclusive.append("path-literal witness %r for %r does not reproduce natively" % (path, text))
                        continue
                    rep.violation("render:path-literal", "the device path %r is not the whole content of the first argument of lipe-scan for %r" % (path, text),
                                  dict(expr=text, mdt=path, native_scheme=d.get("scheme", "")[-300:]))
                res, m = B.solve(tag + ":path-stays-data", assume, bad_data)
                if res == z3.sat:
                    path = "".join(chr(model_char(m, c)) for c in p)
                    confirm(B, rep, known, text, path)
        samples.append(dict(expr=text, path_lengths=list(range(0, kmax + 1)), programs=len(progs)))
    cov = B.coverage_common()
    cov.update(explanation="scheme(&self, mdt) executed from MIR on %d compiled expressions with symbolic device paths of every length "
               "0..%d; rope comparison for repeated / different paths; z3 decides whether some path value is read as anything but the one "
               "string literal naming the device" % (len(samples), kmax),
               bounds=dict(path_len=kmax, expressions=[s["expr"] for s in samples]), samples=samples,
               outside="longer paths; other compiled expressions (scheme() does not inspect the fields it formats)",
               evaluations=len(rep.queries), distinct_nontrivial=len(rep.queries))
    rep.coverage = cov


def confirm_history(B, rep, expr, pa, qa):
    """native replay: render for pa then qa on one compiled expression vs a first rendering for qa"""
    # the driver renders `x<expr> x<mdt> x<mdt2>...` on one compiled value when several device paths are given
    d = B.ctx.run_native_history(expr, [pa, qa])
    fresh = B.ctx.run_native([expr], "debug", mdt=qa)[0].get("scheme")
    if d is not None and fresh is not None and d[-1] == fresh:
        # the witness may need time to pass between the renderings (a clock read at render time): on one compiled value,
        # qa rendered at once vs qa rendered after pa and a pause
        d2 = B.ctx.run_native_history(expr, [qa, pa, qa], sleep_ms=1100)
        if d2 is not None and len(d2) == 3:
            d, fresh = d2, d2[0]
    if d is None or fresh is None:
        rep.inconclusive.append("render-history witness %r after %r could not be replayed" % (qa, pa))
    elif d[-1] == fresh:
        rep.inconclusive.append("render-history witness %r then %r for %r does not reproduce natively" % (pa, qa, expr))
    else:
        rep.violation("render:history", "%r rendered for %r and then for %r gives a different program than a first rendering for %r" % (expr, pa, qa, qa),
                      dict(expr=expr, history=[pa, qa]))


def confirm_diff(B, rep, expr, pa, qa, cname):
    """native replay of a repeatability / single-difference counterexample"""
    if pa == qa:
        qa = qa + "x"
    d = B.ctx.run_native([(expr, pa), (expr, pa), (expr, qa)], "debug")
    s1, s2, s3 = d[0].get("scheme", ""), d[1].get("scheme", ""), d[2].get("scheme", "")
    if cname == "same-path-same-text":
        if d[0].get("again") != "false":
            # again with a pause between the two renderings of one compiled value
            d = B.ctx.run_native([(expr, pa)], "debug", sleep_ms=1100) * 2
        if d[0].get("again") == "false":
            rep.violation("render:not-repeatable", "%r rendered twice for %r differs" % (expr, pa), dict(expr=expr, mdt=pa))
        else:
            rep.inconclusive.append("repeatability counterexample %r does not reproduce" % expr)
        return
    # s1 and s3 must differ exactly by replacing one occurrence of pa with qa
    cands = [i for i in range(len(s1)) if s1.startswith(pa, i) and s1[:i] + qa + s1[i + len(pa):] == s3]
    if cands:
        rep.inconclusive.append("single-difference counterexample %r (%r vs %r) does not reproduce" % (expr, pa, qa))
        return
    rep.violation("render:extra-difference", "renderings of %r for %r and %r differ in more than the device string" % (expr, pa, qa),
                  dict(expr=expr, mdt=pa, mdt2=qa))


def find_scan(d):
    if isinstance(d, list):
        if d and d[0] == Sym("lipe-scan"):
            return d
        for x in d:
            r = find_scan(x)
            if r is not None:
                return r
    return None


def confirm(B, rep, known, text, path):
    benign = "a" * len(path)
    d1, d0 = B.ctx.run_native([(text, path), (text, benign)], "debug")
    s1, s0 = structure_of(d1.get("scheme", "")), structure_of(d0.get("scheme", ""))

    def subst(x):
        if isinstance(x, tuple) and x and x[0] == "str":
            return ("str", path if x[1] == benign else x[1])
        if isinstance(x, tuple):
            return tuple(subst(y) for y in x)
        return x
    if s1 == subst(s0):
        rep.inconclusive.append("device path witness %r does not change how the native program reads" % path)
        return
    rep.violation("mdt-unescaped", "the device path is interpolated without escaping: scheme(%r) reads as %s" % (path, str(s1)[:120]),
                  dict(expr=text, mdt=path))


def replay(ctx, path):
    import json
    rp = json.load(open(path))["replay"]
    if "mdt" in rp:
        d = ctx.run_native([(rp["expr"], rp["mdt"])], "debug")[0]
        print("expr=%r mdt=%r reads as %s" % (rp["expr"], rp["mdt"], str(structure_of(d.get("scheme", "")))[:300]))
    else:
        print(rp)
    return 1
