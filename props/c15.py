# C15 -- parsing and compiling are deterministic functions of their input; the embedded clock is a reading taken
# during the compile call.
# The only sources of nondeterminism a Rust library has are modelled explicitly in Engine M: the clock
# (SystemTime::now -> fresh symbolic instant per call), hash iteration order (HashMap::iter -> a chosen
# permutation), process-global mutable state (statics, atomics -> cells that persist across calls) and process
# identity.  For a corpus biased to many matchers/printers the real parse/compile/scheme (MIR) are executed
#   (a) under three hash iteration orders: programs and destination tables must coincide,
#   (b) three times in a row in one "process" with unrelated compilations in between: results must coincide,
#   (c) with symbolic clock readings: every embedded time constant must be syntactically one of the readings taken
#       inside this compile call, one per time test (so it lies between entry and exit for any monotone clock);
#       no other symbolic quantity may reach the outputs.
import time
import z3
from .common import *
from .trees import *
from mirsym.values import Seg

PID = "C15"
CORPUS = [
    "-name a -o -name b -o -iname c -print", "-fprint A -fprint B -fprint0 A -print0", "-print0 -printf 'x' -fprintf A 'y' -fprint B",
    "-name a -fprint A -o -name b -fprint B -o -name c -fprint0 C", "-mtime -3 -atime +1 -cmin 5 -print", "-amin 4 -fprint A -mmin +2 -fprint B",
    "-true", "-size +3k -uid 5 -print", "-path x -ipath y -name x -iname y -print0 -fprint0 Z -fprintf Z 'q'",
    "-fprint A -fprint B -fprint C -fprint D -fprint E", "-ctime 1 -o -ctime 2 -o -ctime 3",
    # repeated elements (a de-duplication through a hashed container would reorder them)
    "-type f,d,f -print", "-type f,d,l,p,s,f", "-type d -o -type d,f,d", "-perm -u+x,g+x,u+x,o+r", "-name a -o -name b -o -name a -o -name c -o -name b",
    "-fprint A -fprint B -fprint A -fprint C -fprint B",
    "-printf '%g\\n'", "-name a -printf '%s %p\\n' -o -fprintf A '%u:%U\\n'", "-perm -u+w -size -2k -links +3 -printf '%m %n\\n'",
]
A_CLASS, D_CLASS = "pfguhPH", "sUGinbk"


def siblings(text):
    """texts of the same shape with other payloads (other directives of the same placeholder class, other names, numbers and
    files): a cache keyed on anything less than the whole input would confuse them with `text`"""
    def variant(step):
        def directive(m):
            c = m.group(1)
            for cls in (A_CLASS, D_CLASS):
                if c in cls:
                    return "%" + cls[(cls.index(c) + step) % len(cls)]
            return m.group(0)
        t = re.sub(r"%([a-zA-Z])", directive, text)
        t = re.sub(r"(?<![\w%:'{-])(\d+)", lambda m: str(int(m.group(1)) + step), t)
        t = re.sub(r"(-i?name|-i?path|-fprint0?|-fprintf|-pool|-xattr) ([A-Za-z])", lambda m: "%s %s%s" % (m.group(1), m.group(2), "x" * step), t)
        return t
    out = []
    for step in (1, 2):
        v = variant(step)
        if v != text and v not in out:
            out.append(v)
    return out


class EnvironmentDependent(Exception):
    """the result of parse/compile depends on something outside its input (file system, environment, ...)"""


def compile_text(B, text, I=None, st=None, hash_order="fwd", allow_fail=False):
    E = B.engine("dev")
    if I is None:
        I = E.fresh()
    I.no_merge = True
    I.hash_order = hash_order
    f, env = E._resolve("find_parser::parse", {"S": "&str"})
    st = st or St()
    outs = I.call_fn(f, [make_input([text])], st, env)
    s, v = outs[0]
    if isinstance(v, Panic) or not is_ok(v):
        raise Inconclusive("corpus input %r does not parse" % text)
    opts, tree = v.fields[0]
    f2, env2 = E._resolve("scheme::compile", {})
    outs = I.call_fn(f2, [ValRef(tree), ValRef(opts)], s, env2)
    if len(outs) == 1 and is_err(outs[0][1]) and allow_fail:
        return I, outs[0][0], tree, None, None
    if len(outs) != 1 and I.nondet_reads:
        raise EnvironmentDependent("compile(%r) has %d outcomes depending on %s" % (text, len(outs), sorted(set(I.nondet_reads))))
    if len(outs) != 1 or isinstance(outs[0][1], Panic) or not is_ok(outs[0][1]):
        raise Inconclusive("corpus input %r does not compile to a single program" % text)
    s2, c = outs[0]
    ce = c.fields[0]
    f3, env3 = E._resolve("CompiledExpression::scheme", {"S": "&str"})
    o3 = I.call_fn(f3, [ValRef(ce), static_str("/dev/x")], s2, env3)
    B.fn_seen |= I.stats["fns"]
    B.intr_seen |= I.stats["intrinsics"]
    return I, o3[0][0], tree, ce, o3[0][1].items


def confirm_after(B, rep, first, text):
    """native replay: one process compiles `first` and then `text`; another process compiles `text` alone"""
    a = B.ctx.run_native([first, text], "debug")
    b = B.ctx.run_native([text], "debug")
    strip = lambda s_: re.sub(r"\(- \d+ \(", "(- T (", s_ or "")
    if strip(a[1].get("scheme")) == strip(b[0].get("scheme")) and a[1].get("iomap") == b[0].get("iomap"):
        rep.inconclusive.append("history witness (%r before %r) does not reproduce natively" % (first, text))
    else:
        rep.violation("nondeterminism", "%r compiled after %r in the same process gives a different program than compiled alone" % (text, first),
                      dict(input=text, history=[first, text]))


def iomap_set(ce):
    io = ce.fields[ce.names.index("io_map")]
    if io.variant == "None":
        return None
    return sorted(repr((k, v)) for k, v in io.fields[0].entries)


def strip_clock(items, reads):
    """replace clock segments by their index among this call's readings"""
    out = []
    for it in items:
        if isinstance(it, Seg):
            idx = [i for i, t in enumerate(reads) if is_sym(it.term) and it.term.eq(t)]
            out.append(("clock", idx[0]) if idx else ("sym", str(it.term)))
        else:
            out.append(it)
    return out


def count_time_tests(tree):
    if isinstance(tree, (BoxV, ValRef)):
        return count_time_tests(tree.v)
    if isinstance(tree, Adt):
        if tree.ty == "Test" and tree.variant in ("AccessTime", "ChangeTime", "ModifyTime"):
            return 1
        if tree.ty in ("Expression", "Operator"):
            return sum(count_time_tests(f) for f in tree.fields)
    return 0


def run(ctx, rep, tier):
    B = Bench(ctx, rep)
    samples = []
    corpus = CORPUS + validation_corpus(ctx, seed=rep.seed, n_random=(10 if tier == "quick" else 60))[-(10 if tier == "quick" else 60):]
    n = 0
    for text in corpus:
        try:
            base = compile_text(B, text)
        except Inconclusive:
            continue
        except EnvironmentDependent as e:
            rep.query("%s:environment" % text, "sat", 0.0)
            confirm_nondeterminism(B, rep, text, str(e))
            continue
        try:
            n += 1
            I0, st0, tree, ce0, items0 = base
            ref = strip_clock(items0, I0.clock_reads)
            # (a) hash iteration orders
            for order in ("fwd", "rev", "rot"):
                I1, st1, _, ce1, items1 = compile_text(B, text, hash_order=order)
                ok = strip_clock(items1, I1.clock_reads) == ref and iomap_set(ce1) == iomap_set(ce0)
                rep.query("%s:hash-order:%s" % (text, order), "unsat" if ok else "sat", 0.0)
                if not ok:
                    confirm_nondeterminism(B, rep, text, "result depends on hash iteration order (%s)" % order)
                    break
            # (b) repeated in one process, after unrelated compilations
            I = B.engine("dev").fresh()
            st = St()
            seq = []
            sibs = siblings(text)
            for t in [text, "-name zz -fprint QQ -print0", text, "-mmin 3 -o -iname q", "-mmin -5 -user root", "-fprint Z -ls", text] + \
                     [x for sb in sibs for x in (sb, text)]:
                n_reads = len(I.clock_reads)
                _, st, _, ce_i, items_i = compile_text(B, t, I=I, st=st, allow_fail=True)
                if ce_i is None:
                    continue          # an unrelated compilation that fails (unsupported construct after a time test / a printer)
                seq.append((t, strip_clock(items_i, I.clock_reads[n_reads:]), iomap_set(ce_i)))
            mine = [(r, io) for t, r, io in seq if t == text]
            ok = all(x == mine[0] for x in mine) and mine[0][0] == ref
            rep.query("%s:repeat-in-process" % text, "unsat" if ok else "sat", 0.0)
            if not ok:
                confirm_nondeterminism(B, rep, text, "result depends on earlier calls in the same process")
            # (b') a fresh process in which a sibling of the same shape is compiled FIRST (a cache filled by the sibling must not answer)
            for sb in sibs:
                I2 = B.engine("dev").fresh()
                st2 = St()
                try:
                    _, st2, _, ce_s, _ = compile_text(B, sb, I=I2, st=st2, allow_fail=True)
                except Inconclusive:
                    continue
                n_reads = len(I2.clock_reads)
                _, st2, _, ce_t, items_t = compile_text(B, text, I=I2, st=st2, allow_fail=True)
                ok2 = ce_t is not None and strip_clock(items_t, I2.clock_reads[n_reads:]) == ref and iomap_set(ce_t) == iomap_set(ce0)
                rep.query("%s:after-sibling:%s" % (text, sb), "unsat" if ok2 else "sat", 0.0)
                if not ok2:
                    confirm_after(B, rep, sb, text)
                    break
            if I.nondet_reads or I0.nondet_reads:
                confirm_nondeterminism(B, rep, text, "reads process-specific state: %s" % (I.nondet_reads or I0.nondet_reads))
            # (c) clock
            segs = [it for it in items0 if isinstance(it, Seg)]
            n_tt = count_time_tests(tree)
            clock_segs = [s for s in segs if is_sym(s.term) and any(s.term.eq(t) for t in I0.clock_reads)]
            other = [s for s in segs if s not in clock_segs]
            ok = len(clock_segs) == n_tt and not other and len(I0.clock_reads) == n_tt
            rep.query("%s:clock-readings" % text, "unsat" if ok else "sat", 0.0)
            if not ok:
                d = B.ctx.run_native([text], "debug")[0]
                rep.violation("clock", "%r: %d time tests, %d clock readings, %d embedded readings, %d other symbolic values" % (
                    text, n_tt, len(I0.clock_reads), len(clock_segs), len(other)), dict(input=text, native_t0=d.get("t0"), native_t1=d.get("t1"), scheme=d.get("scheme", "")[-300:]))
            if len(samples) < 6:
                samples.append(dict(input=text, time_tests=n_tt, io_map=iomap_set(ce0)))
        # structural purity scan of the whole crate MIR
        except EnvironmentDependent as e:
            rep.query("%s:environment" % text, "sat", 0.0)
            confirm_nondeterminism(B, rep, text, str(e))
    P = B.engine("dev").P
    suspicious = []
    for name, f in P.funcs.items():
        if f.kind == "static" and ("static mut" in f.header or re.search(r"Atomic|Mutex|RefCell|Cell<|Lazy|Once", f.ret or "")):
            suspicious.append("mutable static " + name)
        for b in f.blocks.values():
            t = b.term
            if t is not None and t.kind == "call" and isinstance(t.callee, str):
                if re.search(r"std::env::|env::var|process::id|thread::current|thread_local|getrandom|rand::|Instant::now|RandomState::new", t.callee):
                    suspicious.append("%s calls %s" % (name, t.callee[:80]))
    rep.query("purity-scan", "unsat" if not suspicious else "sat", 0.0)
    for s_ in suspicious[:5]:
        rep.inconclusive.append("process-global state in the crate: %s (its influence on results is covered only by checks (a),(b))" % s_)
    cov = B.coverage_common()
    cov.update(explanation="parse/compile/scheme executed from MIR on %d inputs biased to many resources: under 3 hash iteration orders, 3 times "
               "in one process around unrelated compilations, and with symbolic clock readings; structural scan of all %d MIR bodies for "
               "process-global state" % (n, len(P.funcs)),
               bounds=dict(inputs=n, hash_orders=["insertion", "reversed", "rotated"], repeats=3), samples=samples,
               outside="other inputs; the allocator and address-dependent behaviour (no pointer is observed by the crate's MIR)",
               evaluations=len(rep.queries), distinct_nontrivial=len(rep.queries))
    rep.coverage = cov
    rep.assumptions = ["the clock is monotone between entry and exit of compile", "HashMap order only matters through iteration (lookup by key is order-free)"]


def confirm_nondeterminism(B, rep, text, what):
    """native replay: several fresh processes + repeated calls must disagree"""
    outs = []
    for _ in range(6):
        d = B.ctx.run_native([text, "-name zz -fprint QQ -print0", text], "debug")
        for x in (d[0], d[2]):
            s = re.sub(r"\(- \d+ \(", "(- T (", x.get("scheme", ""))
            outs.append((s, x.get("iomap")))
    if len(set(outs)) > 1:
        rep.violation("nondeterminism", "%r: %s (native runs disagree: %d distinct results of 12)" % (text, what, len(set(outs))), dict(input=text, what=what))
    else:
        rep.violation("nondeterminism-model-only", "%r: %s (12 native runs agreed: needs a different hash seed/order to show)" % (text, what), dict(input=text, what=what))


def replay(ctx, path):
    import json
    rp = json.load(open(path))["replay"]
    outs = set()
    for _ in range(6):
        d = ctx.run_native([rp["input"], rp["input"]], "debug")
        for x in d:
            outs.add((re.sub(r"\(- \d+ \(", "(- T (", x.get("scheme", "")), x.get("iomap")))
    print("input=%r distinct native results over 12 runs: %d" % (rp["input"], len(outs)))
    return 1 if len(outs) > 1 else 0
