# C16 -- concurrent scanner threads never tear or mix output records.
# For programs with 1..3 printers (compiled by the real code from MIR) Engine S executes every print action once
# and records its atomic steps  lock m / write port bytes / unlock m  (make-printer by its contract, framed
# printers from the emitted with-mutex code).  T threads x c calls are then interleaved by a SYMBOLIC schedule:
# z3 looks for a total order of all steps that respects program order and mutual exclusion and in which some
# write of another call lands between the first and the last write of a record on the same underlying port
# (torn / mixed record), or for a lock order cycle (deadlock).  unsat = no interleaving tears.
import itertools, random, time
import z3
from .common import *
from .trees import *
from .semantics import iomap_of
from scheme.eval import FileRec, run_program, RuntimeErr, Printer
from scheme.reader import ReadError

PID = "C16"
PROGRAMS = [
    "-print", "-print0", "-printf '%p\\n'", "-printf 'x'", "-print -printf '%s %p\\n'", "-print , -print0", "-fprint A , -print0",
    "-fprint A , -fprint0 A , -printf 'x'", "-fprint A , -fprint B , -print", "-name a -print -o -name b -print",
    "-print , -printf '%U\\n' , -printf '%G\\n'", "-print0 , -printf 'y' , -fprintf A 'z'", "-print , -print-file-fid",
    "-printf '%p\\n%s'", "-print , -printf 'a\\nb'", "-printf '%p\\n%s\\n'",
    # formats with the \\c escape: unreadable today (known finding clear-escape of C02/C04, skipped here); once \\c is implemented
    # the records they produce in plain mode must still be terminated lines
    "-printf '%p\\c\\n'", "-print , -printf 'a\\c%s\\n'",
]
# every binary operator with the record-framing action on either side of a plain one (the mode decision must look at both operands),
# and under negation / inside a group
for _cx in ("-print0", "-printf '%p '", "-fprint A"):
    for _op in (" ", " -o ", " , "):
        PROGRAMS += [_cx + _op + "-print", "-print" + _op + _cx]
    PROGRAMS += ["! " + _cx + " , -print", "( " + _cx + " , -true ) -print", "-name a , ( -print , " + _cx + " ) , -print"]
# two plain-mode printers on the same port with different terminators, in both orders and twice (a printer shared by port alone
# would give one of them the other's terminator)
for _a, _b in (("-printf '%p\\n'", "-print"), ("-print", "-printf '%p %s\\n'")):
    for _op in (" ", " -o ", " , "):
        PROGRAMS += [_a + _op + _b, _b + _op + _a, _a + _op + _b + _op + _a]
# plain-mode formats whose final newline follows a character that is special to the target's string or template syntax, written
# literally and as an octal escape: the record must still end in the newline (a `~` left single would swallow it)
for _sp in ("~", "\\176", "\\042", "\\134", "%%", "\\045", "\\012", "\\176\\176"):
    PROGRAMS += ["-printf '%p" + _sp + "\\n'", "-printf '" + _sp + "\\n'", "-print , -printf '%s " + _sp + "\\n'"]
# an interior escape of every kind inside a newline-terminated plain-mode format: the record must stay ONE write under one lock
# (a generator that emits a format piecewise gives several critical sections per record)
for _sp in ("\\0", "\\a", "\\t", "\\f", "\\101", "\\\\", "%%", "\\n"):
    PROGRAMS += ["-printf '%p" + _sp + "%s\\n'", "-print , -printf 'a" + _sp + "b\\n'"]
PROGRAMS = list(dict.fromkeys(PROGRAMS))


def action_steps(B, text):
    """compile `text`, run the body once with every action firing -> list of calls; call = list of steps
    step = ('lock', m) | ('unlock', m) | ('write', underlying_port, description)"""
    pr = B.parse([text])
    opts, tree = pr.alts[0][1].fields[0]
    cr = compile_tree(B, tree, opts)
    ces = [ce for g, v in cr.alts if is_ok(v) for _, ce in flatten_value(v.fields[0])]
    if len(ces) != 1:
        if "\\c" in text and not ces:
            raise ReadError("\\c is refused by compile")        # handled by the caller like the formerly unreadable program
        raise Inconclusive("program %r does not compile to one program" % text)
    items = render(B, cr, ces[0])
    M, tv, data = run_program(items, FileRec("c16"))
    calls = []
    ev = M.events
    plain = iomap_of(ces[0]) is None
    unterminated = []
    for e in ev:
        if plain and e["kind"] == "record":
            term = e["extra"]
            last = e["payload"][-1] if e["payload"] else None
            if not (term == 10 or (term is None and last == 10)):
                unterminated.append((term, last))
    action_steps.unterminated = unterminated
    # framed mode: every write of a printer must go through the frame procedure (payload, separator, tag)
    action_steps.unframed = [e for e in ev if (not plain) and e["kind"] == "record"]
    i = 0
    while i < len(ev):
        e = ev[i]
        under = M.ports.get(e["port"], e["port"])
        if e["kind"] == "record":
            mutexes = [h for h in e["held"] if isinstance(h, tuple) and h[0] == "mutex"]
            steps = [("lock", m) for m in mutexes] + [("write", under, "payload")]
            if e["extra"] is not None:
                steps.append(("write", under, "terminator"))
            steps += [("unlock", m) for m in reversed(mutexes)]
            calls.append(steps)
            i += 1
        elif e["kind"] == "direct":
            # the runtime writes whole lines itself; DESIGN.md 2.3 assumes those writes are serialised by the runtime
            # with respect to every other writer of that port, so they are outside this claim
            i += 1
        elif e["kind"] == "write":
            # consecutive writes of one printer invocation (same guard object) form one call
            j = i
            steps = []
            held = [h for h in e["held"] if isinstance(h, tuple) and h[0] == "mutex"]
            steps += [("lock", m) for m in held]
            while j < len(ev) and ev[j]["kind"] == "write" and ev[j]["guard"] is e["guard"] and ev[j]["held"] == e["held"]:
                steps.append(("write", M.ports.get(ev[j]["port"], ev[j]["port"]), "frame-part%d" % (j - i)))
                j += 1
            steps += [("unlock", m) for m in reversed(held)]
            calls.append(steps)
            i = j
        else:
            i += 1
    return calls, rope_text(items)


def schedule_query(calls_per_thread):
    """calls_per_thread: [[call, ...] per thread]; returns (solver, pos vars, torn guard, info)"""
    s = z3.Solver()
    pos = {}
    N = sum(len(st_) for th in calls_per_thread for st_ in th)
    allpos = []
    sections = []      # (mutex, lock_pos, unlock_pos, thread)
    records = []       # (port, first_write_pos, last_write_pos, thread, call index, [write positions])
    for t, th in enumerate(calls_per_thread):
        prev = None
        for c, steps in enumerate(th):
            open_locks = {}
            wpos = {}
            for k, stp in enumerate(steps):
                v = z3.Int("p_%d_%d_%d" % (t, c, k))
                pos[(t, c, k)] = v
                allpos.append(v)
                s.add(v >= 0, v < N)
                if prev is not None:
                    s.add(prev < v)
                prev = v
                if stp[0] == "lock":
                    open_locks[stp[1]] = v
                elif stp[0] == "unlock":
                    sections.append((stp[1], open_locks.pop(stp[1]), v, t))
                else:
                    wpos.setdefault(stp[1], []).append(v)
            for port, ws in wpos.items():
                records.append((port, ws[0], ws[-1], t, c, ws))
    s.add(z3.Distinct(*allpos))
    for a, b in itertools.combinations(sections, 2):
        if a[0] == b[0] and a[3] != b[3]:
            s.add(z3.Or(a[2] < b[1], b[2] < a[1]))
    torn = []
    for a in records:
        for b in records:
            if a is b or a[0] != b[0] or (a[3] == b[3] and a[4] == b[4]):
                continue
            if len(a[5]) < 2:
                continue
            for w in b[5]:
                torn.append(z3.And(a[1] < w, w < a[2]))
    return s, pos, (z3.Or(*torn) if torn else z3.BoolVal(False)), dict(steps=N, sections=len(sections), records=len(records))


def lock_order_cycle(calls):
    """nested critical sections taken in conflicting orders -> possible deadlock"""
    edges = set()
    for steps in calls:
        held = []
        for stp in steps:
            if stp[0] == "lock":
                for h in held:
                    edges.add((h, stp[1]))
                held.append(stp[1])
            elif stp[0] == "unlock":
                held.remove(stp[1])
    return any((b, a) in edges for a, b in edges) or any(a == b for a, b in edges)


def simulate(calls_per_thread, order):
    """deterministic concrete scheduler: run steps in the given order -> per-port stream of (thread, call, part)"""
    streams = {}
    owner = {}
    for (t, c, k) in order:
        stp = calls_per_thread[t][c][k]
        if stp[0] == "lock":
            if owner.get(stp[1]) not in (None, t):
                return None
            owner[stp[1]] = t
        elif stp[0] == "unlock":
            owner[stp[1]] = None
        else:
            streams.setdefault(stp[1], []).append((t, c, stp[2]))
    return streams


def run(ctx, rep, tier):
    B = Bench(ctx, rep)
    rnd = random.Random(rep.seed)
    samples = []
    states = transitions = 0
    n_traces = 0
    shapes = [(2, 1), (2, 2)] if tier == "quick" else [(2, 1), (2, 2), (3, 1), (3, 2)]
    skipped_clear = []
    for text in PROGRAMS:
        try:
            calls, prog = action_steps(B, text)
        except (ReadError, RuntimeErr) as e:
            if "\\c" in text and "\\c" in str(e):
                skipped_clear.append(text)            # known finding clear-escape (C02/C04): the program cannot be read at all
                continue
            rep.violation("program-unreadable", "%r: %s" % (text, e), dict(input=text))
            continue
        if not calls:
            continue
        if action_steps.unterminated:
            d = B.ctx.run_native([text], "debug")[0]
            if d.get("iomap", "none") == "none" and "make-printer" in d.get("scheme", "") and " #f)" in d.get("scheme", ""):
                rep.violation("unterminated-line", "%r is compiled in plain mode with a printer that appends no terminator although its records do not end "
                              "in a newline: the stream does not split into complete terminated lines" % text, dict(input=text))
            else:
                rep.inconclusive.append("unterminated plain-mode record for %r does not reproduce natively" % text)
        if action_steps.unframed:
            d = B.ctx.run_native([text], "debug")[0]
            if d.get("iomap", "none") != "none" and "make-printer" in d.get("scheme", ""):
                rep.violation("unframed-record", "%r is compiled in framed mode but one of its printers writes its records directly (make-printer) instead of "
                              "through the frame procedure: the stream does not split into whole frames" % text, dict(input=text))
            else:
                rep.inconclusive.append("unframed record in framed mode for %r does not reproduce natively" % text)
        if lock_order_cycle(calls):
            rep.violation("deadlock", "%r: printers take mutexes in conflicting orders" % text, dict(input=text))
        for T_, c_ in shapes:
            slots = T_ * c_
            choices = list(itertools.product(range(len(calls)), repeat=slots))
            if len(choices) > 40:
                rnd.shuffle(choices)
                choices = choices[:40]
            for ch in choices:
                per_thread = [[calls[ch[t * c_ + j]] for j in range(c_)] for t in range(T_)]
                s, pos, torn, info = schedule_query(per_thread)
                t0 = time.time()
                # reachability twin: some schedule exists at all
                r0 = s.check()
                if r0 == z3.sat and n_traces < 400:
                    # validate the step model: replay one arbitrary legal schedule on the concrete scheduler
                    m0 = s.model()
                    order0 = sorted(pos, key=lambda k_: m0.eval(pos[k_], model_completion=True).as_long())
                    if simulate(per_thread, order0) is None:
                        rep.inconclusive.append("a schedule accepted by the encoding violates mutual exclusion when replayed (%r)" % text)
                    n_traces += 1
                s.add(torn)
                r1 = s.check() if r0 == z3.sat else z3.unknown
                rep.query("%s:%dx%d:%s" % (text, T_, c_, "".join(map(str, ch))), str(r1), time.time() - t0)
                states += info["steps"] + 1
                transitions += info["steps"]
                if r0 != z3.sat:
                    rep.inconclusive.append("no schedule exists for %r (model error)" % text)
                    continue
                if r1 == z3.sat:
                    m = s.model()
                    order = sorted(pos, key=lambda k_: m.eval(pos[k_], model_completion=True).as_long())
                    streams = simulate(per_thread, order)
                    n_traces += 1
                    if streams is None:
                        rep.inconclusive.append("schedule counterexample for %r violates mutual exclusion when replayed" % text)
                        continue
                    torn_ports = {}
                    for port, st_ in streams.items():
                        seen, last = set(), None
                        for (t, c, part) in st_:
                            if (t, c) != last and (t, c) in seen:
                                torn_ports[port] = st_
                            seen.add((t, c))
                            last = (t, c)
                    if torn_ports:
                        port, st_ = list(torn_ports.items())[0]
                        rep.violation("torn-record", "%r with %d threads x %d calls: on port %r the stream is %s (schedule %s)" % (
                            text, T_, c_, port, st_, order), dict(input=text, threads=T_, calls=c_, choice=list(ch), schedule=[list(o) for o in order]))
                    else:
                        rep.inconclusive.append("schedule counterexample for %r does not tear when replayed" % text)
                    break
                elif r1 != z3.unsat:
                    rep.inconclusive.append("schedule query unknown for %r" % text)
        if len(samples) < 6:
            samples.append(dict(program=text, calls=[[("%s %s" % (s_[0], s_[1] if s_[0] != "write" else "%s %s" % (s_[1], s_[2]))) for s_ in c] for c in calls]))
    cov = B.coverage_common()
    cov.update(states=states, transitions=transitions, traces_validated_against_impl=n_traces, samples=samples,
               explanation="step sequences extracted by evaluating the emitted printer code; per program and per assignment of calls "
               "to thread slots z3 decides over ALL schedules (total orders respecting program order and mutual exclusion) whether a record "
               "can be torn; lock-order cycles checked for deadlock",
               bounds=dict(programs=len(PROGRAMS), skipped_because_of_known_clear_escape=skipped_clear, thread_shapes=shapes, printers="1..3"), evaluations=len(rep.queries), distinct_nontrivial=len(rep.queries),
               outside="the runtime's own direct writes (print-relative-path, print-file-fid) are assumed serialised by the runtime; Guile's with-mutex/display semantics are the modelled contract")
    rep.coverage = cov
    rep.assumptions = ["make-printer holds its mutex across payload and terminator; with-mutex is a critical section; display is one atomic write"]


def replay(ctx, path):
    import json
    rp = json.load(open(path))["replay"]
    print(rp)
    return 1
