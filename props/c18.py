# C18 -- argument errors name the offending primary and word.
# parse() incl. ParserError::dispatch, SyntaxContext::new, explain and the thiserror Display bodies are executed from
# MIR on inputs  <0..2 valid primaries> <keyword> <argument word of k symbolic characters, invalid from its first
# character, or missing> <0..1 more words>;  the error text comes back as a rope whose quoted parts are the symbolic
# characters themselves.  Assertions on the rope, for every value of the symbolic characters (z3 over the guards):
# non-empty, contains the keyword, contains the argument word between a pair of back quotes (an empty pair when the
# argument is missing), and every quoted segment occurs in the input.
import time, re
import z3
from .common import *

PID = "C18"
DEVIATIONS = {"missing-argument-of-action-or-option": "a missing argument of an action or global option is reported as ``Unexpected token: ` ` `` "
                                                      "without naming the keyword (e.g. -fprint, -threads at end of input)"}
# keyword -> predicate on the first character making the argument invalid from its first character
NUM = lambda c: z3.And(z3.UGE(c, ord("g")), z3.ULE(c, ord("z")))            # a letter: not a digit, not a sign
KW = {
    "-uid": NUM, "-gid": NUM, "-inum": NUM, "-links": NUM, "-mirror-count": NUM, "-stripe-count": NUM, "-size": NUM, "-amin": NUM,
    "-atime": NUM, "-mmin": NUM, "-mtime": NUM, "-cmin": NUM, "-ctime": NUM, "-threads": NUM,
    "-type": lambda c: z3.Or(c == ord("x"), c == ord("q"), c == ord("7"), c == ord("%")),
    "-perm": lambda c: z3.Or(c == ord("x"), c == ord("q"), c == ord("8"), c == ord("%")),
}
MISSING = ["-name", "-iname", "-path", "-pool", "-xattr", "-uid", "-size", "-mtime", "-type", "-perm", "-anewer", "-regex",
           "-fprint", "-fprint0", "-fls", "-printf", "-threads", "-xattr-match", "-fprintf"]
KIND = {"-fprint": "action", "-fprint0": "action", "-fls": "action", "-printf": "action", "-fprintf": "action", "-threads": "option"}
PREFIXES = ["", "-true ", "-name x -o ", "( -print , "]
SUFFIXES = ["", " -print"]


def word_char(c):
    # characters of an unquoted word that do not end it and do not start a quoted string
    return z3.And(c != 32, c != 10, c != 41, c != 9, c != 13, c != 39, c != 34, z3.UGE(c, 33), c != 96)


def sp(text, asm):
    """the text with every space replaced by a symbolic blank (space, tab, newline or carriage return): the property
    holds wherever the primary stands and however the words are separated"""
    out = []
    for part in re.split("( )", text):
        if part == " ":
            c = sym_char()
            asm.append(z3.Or(c == 32, c == 9, c == 10, c == 13))
            out.append(c)
        elif part:
            out.append(part)
    return out


def find_sub(items, needle):
    """positions where the concrete/symbolic item sequence `needle` occurs structurally in rope `items`"""
    out = []
    n = len(needle)
    for i in range(len(items) - n + 1):
        ok = True
        for a, b in zip(items[i:i + n], needle):
            if is_sym(a) or is_sym(b):
                if not (is_sym(a) and is_sym(b) and a.eq(b)):
                    ok = False
                    break
            elif a != b:
                ok = False
                break
        if ok:
            out.append(i)
    return out


def quoted_segments(items):
    segs, cur = [], None
    for it in items:
        if it == 96:
            if cur is None:
                cur = []
            else:
                segs.append(cur)
                cur = None
        elif cur is not None:
            cur.append(it)
    return segs


def check_message(items, kw, word, input_items):
    """-> list of problems for one concrete-shaped message rope"""
    probs = []
    if not items:
        probs.append("empty message")
    if kw is not None and not find_sub(items, [ord(c) for c in kw]):
        probs.append("keyword %s not named" % kw)
    if word is not None and not find_sub(items, [96] + list(word) + [96]):
        probs.append("argument word not quoted")
    for seg in quoted_segments(items):
        if seg and not find_sub(input_items, seg):
            probs.append("quotes text that is not in the input: %s" % text_of(seg))
    return probs


def run(ctx, rep, tier):
    B = Bench(ctx, rep)
    known = {k["class"] for k in vlib.known_for(PID)}
    q = tier == "quick"
    B.validate_parse(["-amin test", "-uid x -print", "-true -size q", "-type xyz", "-perm 8", "-fprint", "-threads", "-printf", "-name", "zzz", "-true zzz",
                      "-xattr-match a", "-fprintf out", "( -print , -uid z"] + validation_corpus(ctx, seed=rep.seed, n_random=5)[:30])
    samples = []

    def one(name, spec, assume, kw, word, missing_kind=None):
        r = B.parse(spec, extra_assume=assume)
        input_items = []
        for x in spec:
            input_items += [ord(c) for c in x] if isinstance(x, str) else [x]
        bad = False
        why = {}
        not_err = False
        for g, v in r.alts:
            if isinstance(v, Panic) or not is_err(v):
                not_err = b_or(not_err, g)
                continue
            for g1, e in flatten_value(v.fields[0]):
                items = list(r.I.fmt_display(r.I, e, St()))
                probs = check_message(items, kw, word, input_items)
                if probs:
                    bad = b_or(bad, b_and(g, g1))
                    why[len(why)] = (b_and(g, g1), probs, items)
        res, m = B.solve(name + ":rejected", r.assume, not_err)
        if res == z3.sat:
            t = model_string(m, spec)
            d = B.ctx.run_native([t], "debug")[0]
            if d.get("parse") == "err":
                rep.inconclusive.append("witness %r (accepted) does not reproduce" % t)
            else:
                rep.violation("message:not-rejected", "%r is not rejected (%s)" % (t, d.get("parse")), dict(input=t))
        res, m = B.solve(name + ":message", r.assume, bad)
        if res == z3.sat:
            t = model_string(m, spec)
            probs = []
            for g, p_, items in why.values():
                if eval_guard(m, g):
                    probs = p_
            wtxt = None if word is None else "".join(chr(model_char(m, c)) if not isinstance(c, int) else chr(c) for c in word)
            confirm(B, rep, known, t, kw, wtxt, probs, missing_kind)
        return r

    t0 = time.time()
    # (1) invalid from the first character
    kmax = 2 if q else 4
    for kw, pred in KW.items():
        for pre in (PREFIXES[:2] if q else PREFIXES):
            for suf in (SUFFIXES[:1] if q else SUFFIXES):
                for k in range(1, kmax + 1):
                    if q and k > 1 and pre:
                        continue
                    cs = [sym_char() for _ in range(k)]
                    asm = [pred(cs[0])] + [word_char(c) for c in cs]
                    one("%s%s+%d%s" % (pre, kw, k, suf), sp(pre + kw + " ", asm) + cs + sp(suf, asm), asm, kw, cs)
        # a sign followed by something that is no number: no prefix of the word is an argument, so the whole word is the offending one
        if pred is NUM and kw != "-threads":
            for pre in (PREFIXES[:2] if q else PREFIXES):
                for k in ((2,) if q else (2, 3)):
                    if q and pre and kw not in ("-uid", "-size", "-mtime"):
                        continue
                    cs = [sym_char() for _ in range(k)]
                    asm = [z3.Or(cs[0] == ord("+"), cs[0] == ord("-")), NUM(cs[1])] + [word_char(c) for c in cs]
                    one("%s%s+sign%d" % (pre, kw, k), sp(pre + kw + " ", asm) + cs, asm, kw, cs)
        # a word that opens a quote and never closes it is an ordinary (invalid) word: it is quoted whole
        if kw in ("-uid", "-size", "-type", "-threads", "-mtime", "-perm") or not q:
            for pre in PREFIXES[:2]:
                cs = [sym_char() for _ in range(3)]
                asm = [z3.Or(cs[0] == 34, cs[0] == 39)] + [word_char(c) for c in cs[1:]]
                one("%s%s+unterminated-quote" % (pre, kw), sp(pre + kw + " ", asm) + cs, asm, kw, cs)
        samples.append(dict(keyword=kw, word_lengths=list(range(1, kmax + 1))))
    # (2) missing argument
    for kw in MISSING:
        for pre in (PREFIXES[:2] if q else PREFIXES):
            for tail in ("", " "):
                kind = KIND.get(kw)
                asm = []
                one("%s%s<missing>%r" % (pre, kw, tail), sp(pre + kw + tail, asm), asm, kw, [], missing_kind=kind)
    # (3) a word that is no keyword at all
    for pre in (PREFIXES[:2] if q else PREFIXES):
        for k in range(1, (3 if q else 5) + 1):
            cs = [sym_char() for _ in range(k)]
            asm = [word_char(c) for c in cs] + [z3.And(cs[0] != ord("-"), cs[0] != ord("("), cs[0] != ord("!"), cs[0] != ord(","), cs[0] != ord("n"))]
            one("%sunknown%d" % (pre, k), sp(pre, asm) + cs, asm, None, cs)
    # (3b) a word that begins with '-' and is no keyword: '-' + k symbolic characters.  Strict part: no primary keyword is a proper
    # prefix of the word (operator spellings are no primaries: `-ok`, `-abc`, `-andx`): the message quotes the whole word.
    # Glued part: <primary keyword><tail>: the whole word, or -- recorded deviation `glued-tail` -- the tail after a primary
    # keyword prefix is quoted; anything else is a violation.
    from spec.vocab import VOCAB, OPERATOR_WORDS
    dash = ord("-")

    def prefix_guard(cs, kw):
        return b_and(*[cs[i] == ord(kw[i + 1]) for i in range(len(kw) - 1)])

    def run_dash(name, pre, cs, asm, tails, strict):
        """tails: [(guard, tail items)] acceptable under the recorded deviation"""
        w = [dash] + cs
        spec = sp(pre, asm) + w
        r = B.parse(spec, extra_assume=asm)
        input_items = []
        for x in spec:
            input_items += [ord(c) for c in x] if isinstance(x, str) else [x]
        bad, dev, not_err = False, False, False
        for g, v in r.alts:
            if isinstance(v, Panic) or not is_err(v):
                not_err = b_or(not_err, g)
                continue
            for g1, e in flatten_value(v.fields[0]):
                items = list(r.I.fmt_display(r.I, e, St()))
                gg = b_and(g, g1)
                if check_message(items, None, None, input_items):
                    bad = b_or(bad, gg)
                    continue
                whole = bool(find_sub(items, [96] + w + [96]))
                tail_ok = False if (strict or "glued-tail" not in known) else b_or(*[tg for tg, t in tails if find_sub(items, [96] + list(t) + [96])])
                if not whole:
                    bad = b_or(bad, b_and(gg, b_not(tail_ok)))
                    dev = b_or(dev, b_and(gg, tail_ok))
        res, m = B.solve(name + ":rejected", r.assume, not_err)
        if res == z3.sat:
            t = model_string(m, spec)
            d = B.ctx.run_native([t], "debug")[0]
            if d.get("parse") == "err":
                rep.inconclusive.append("witness %r (accepted) does not reproduce" % t)
            else:
                rep.violation("message:not-rejected", "%r is not rejected (%s)" % (t, d.get("parse")), dict(input=t))
        res, m = B.solve(name + ":message", r.assume, bad)
        if res == z3.sat:
            t = model_string(m, spec)
            wt = model_string(m, w)
            msg = B.ctx.run_native([t], "debug")[0].get("err", "")
            quoted = re.findall(r"`([^`]*)`", msg)
            allowed = [wt] + ([] if strict or "glued-tail" not in known else [wt[len(kw):] for kw in VOCAB if wt.startswith(kw) and len(wt) > len(kw)])
            if msg and any(a in quoted for a in allowed) and all((not q_) or q_ in t for q_ in quoted):
                rep.inconclusive.append("message witness %r does not reproduce natively (%r)" % (t, msg))
            else:
                rep.violation("message:word", "%r -> %r: the word %r is no keyword and is not quoted" % (t, msg, wt), dict(input=t, message=msg))
        if dev is not False and not run_dash.seen:
            res, m = B.solve(name + ":glued-tail-present", r.assume, dev)
            if res == z3.sat:
                t = model_string(m, spec)
                wt = model_string(m, w)
                msg = B.ctx.run_native([t], "debug")[0].get("err", "")
                quoted = re.findall(r"`([^`]*)`", msg)
                if wt not in quoted and any(wt.startswith(kw) and wt[len(kw):] in quoted for kw in VOCAB):
                    run_dash.seen = True
                    rep.violation("glued-tail", "%r -> %r" % (t, msg), dict(input=t))
    run_dash.seen = False

    words_no_comma = lambda cs: [word_char(c) for c in cs] + [c != ord(",") for c in cs]
    vocab_words = [kw for kw in list(VOCAB) + OPERATOR_WORDS if kw.startswith("-")]
    for pre in (PREFIXES[:2] if q else PREFIXES):
        for k in range(1, (3 if q else 5) + 1):
            cs = [sym_char() for _ in range(k)]
            asm = words_no_comma(cs)
            asm += [b_not(prefix_guard(cs, kw)) for kw in vocab_words if len(kw) == k + 1]          # not a vocabulary word
            asm += [b_not(prefix_guard(cs, kw)) for kw in VOCAB if len(kw) < k + 1]                  # no primary keyword prefix
            run_dash("%sdash-unknown%d" % (pre, k), pre, cs, asm, [], True)
    for kw in sorted(VOCAB):
        for pre in (PREFIXES[:1] if q else PREFIXES[:2]):
            for k in range(1, (2 if q else 3) + 1):
                ts = [sym_char() for _ in range(k)]
                cs = [ord(c) for c in kw[1:]] + ts
                asm = words_no_comma(ts)
                full = [kw2 for kw2 in vocab_words if len(kw2) == len(kw) + k and kw2.startswith(kw)]
                asm += [b_not(b_and(*[ts[i] == ord(kw2[len(kw) + i]) for i in range(k)])) for kw2 in full]
                tails = [(True, ts)]
                for kw2 in VOCAB:                                  # a longer primary keyword formed with tail characters: covered
                    if kw2.startswith(kw) and len(kw) < len(kw2) < len(kw) + k:      # when kw2 itself is the base keyword
                        j = len(kw2) - len(kw)
                        asm.append(b_not(b_and(*[ts[i] == ord(kw2[len(kw) + i]) for i in range(j)])))
                for kw2 in VOCAB:                                  # a shorter primary keyword that is a prefix of this one
                    if kw.startswith(kw2) and len(kw2) < len(kw):
                        tails.append((True, [ord(c) for c in kw[len(kw2):]] + ts))
                run_dash("%s%s+glued%d" % (pre, kw, k), pre, cs, asm, tails, False)
    cov = B.coverage_common()
    cov.update(explanation="parse incl. error dispatch and Display executed from MIR; per family z3 decides over all values of the symbolic "
               "argument characters whether the message (a rope containing those very characters) is non-empty, names the keyword, quotes the "
               "word, and quotes only input text",
               bounds=dict(separators="every blank between words is a symbolic character out of {space, tab, newline, CR}", keywords=list(KW), missing_argument_keywords=MISSING, word_len=kmax, prefixes=PREFIXES if not q else PREFIXES[:2]),
               samples=samples, dash_words="'-' + 1..%d symbolic characters without a primary keyword prefix: whole word quoted; every primary keyword + 1..%d glued characters: whole word or (recorded deviation glued-tail) the glued tail quoted" % ((3 if q else 5), (2 if q else 3)), outside="arguments that start validly (C05); quoted argument words; longer words; words containing a comma",
               evaluations=len(rep.queries), distinct_nontrivial=len(rep.queries))
    rep.coverage = cov


def confirm(B, rep, known, text, kw, word, probs, missing_kind):
    d = B.ctx.run_native([text], "debug")[0]
    msg = d.get("err", "")
    real = []
    if not msg:
        real.append("empty message")
    if kw is not None and kw not in msg:
        real.append("keyword %s not named" % kw)
    if word is not None and ("`%s`" % word) not in msg:
        real.append("argument word %r not quoted" % word)
    for seg in re.findall(r"`([^`]*)`", msg):
        if seg and seg not in text:
            real.append("quotes %r which is not in the input" % seg)
    if not real:
        rep.inconclusive.append("message witness %r does not reproduce natively (%s)" % (text, probs))
        return
    if missing_kind in ("action", "option") and word == "" and "missing-argument-of-action-or-option" in known and real == ["keyword %s not named" % kw]:
        rep.violation("missing-argument-of-action-or-option", DEVIATIONS["missing-argument-of-action-or-option"] + "; witness %r -> %r" % (text, msg), dict(input=text))
        return
    rep.violation("message:" + real[0].split()[0], "%r -> %r: %s" % (text, msg, "; ".join(real)), dict(input=text, message=msg, problems=real))


def replay(ctx, path):
    import json
    rp = json.load(open(path))["replay"]
    d = ctx.run_native([rp["input"]], "debug")[0]
    print("input=%r -> %r" % (rp["input"], d.get("err")))
    return 1
