# C08 -- permission arguments denote the bits chmod would compute.
# parse("-perm <prefix><arg>") is executed symbolically (MIR); arg is (a) 3-4 symbolic octal digits,
# (b) 1..3 clauses  who+ op perm+  with symbolic letters.  z3 compares the Mode bits and the check
# kind in the returned tree with chmod's rule folded from mode 0.  The emitted mask/constant of the
# three check kinds is verified on the code generator (compile_perm_check) with symbolic Mode bits.
import time
import z3
from .common import *

PID = "C08"
DEVIATIONS = {"minus-clause": "a '-' clause clears the complement of the named permissions within 'who' instead of the named ones "
                              "(-perm u+rw,u-r gives 0400, chmod gives 0200)"}
PREFIX = {"": "Equal", "-": "AtLeast", "/": "Any"}


def letter(alphabet):
    c = sym_char()
    return c, z3.Or(*[c == ord(a) for a in alphabet])


def who_mask(cs):
    m = z3.BitVecVal(0, 32)
    for c in cs:
        m = m | z3.If(c == ord("u"), z3.BitVecVal(0o700, 32), z3.If(c == ord("g"), z3.BitVecVal(0o070, 32),
                      z3.If(c == ord("o"), z3.BitVecVal(0o007, 32), z3.BitVecVal(0o777, 32))))
    return m


def perm_mask(cs):
    m = z3.BitVecVal(0, 32)
    for c in cs:
        m = m | z3.If(c == ord("r"), z3.BitVecVal(0o444, 32), z3.If(c == ord("w"), z3.BitVecVal(0o222, 32), z3.BitVecVal(0o111, 32)))
    return m


def chmod_fold(clauses, deviations=()):
    mode = z3.BitVecVal(0, 32)
    for who, opc, perms in clauses:
        wm, pm = who_mask(who), perm_mask(perms)
        bits = wm & pm
        minus = mode & ~bits
        if "minus-clause" in deviations:
            minus = mode & ~(wm & ~pm)
        mode = z3.If(opc == ord("+"), mode | bits, z3.If(opc == ord("-"), minus, (mode & ~wm) | bits))
    return mode


def extract(run):
    """-> (guard_ok_by_kind {kind: guard}, bits term, guard_other)"""
    kinds = {k: False for k in PREFIX.values()}
    bits = z3.BitVecVal(0, 32)
    other = False
    for g, v in run.alts:
        if isinstance(v, Panic) or not is_ok(v):
            other = b_or(other, g)
            continue
        tree = v.fields[0][1]
        hit = False
        for g2, t in alts_of(tree):
            if isinstance(t, Adt) and t.variant == "Test":
                for g3, te in alts_of(t.fields[0]):
                    if te.variant == "Perm":
                        for g4, pc in alts_of(te.fields[0]):
                            gg = b_and(g, g2, g3, g4)
                            kinds[pc.variant] = b_or(kinds.get(pc.variant, False), gg)
                            perm = pc.fields[0]
                            for g5, pv in alts_of(perm):
                                mode = pv.fields[0]
                                for g6, mv in alts_of(mode):
                                    b = mv.fields[0]
                                    b = z3.BitVecVal(b, 32) if isinstance(b, int) else b
                                    bits = z3.If(b_and(gg, g5, g6), b, bits) if b_and(gg, g5, g6) is not True else b
                            hit = b_or(hit, gg)
        other = b_or(other, b_and(g, b_not(hit)))
    return kinds, bits, other


def run(ctx, rep, tier):
    B = Bench(ctx, rep)
    known = {k["class"] for k in vlib.known_for(PID)}
    dev = tuple(d for d in DEVIATIONS if d in known)
    B.validate_parse(validation_corpus(ctx, seed=rep.seed, n_random=10) +
                     ["-perm 644", "-perm 0644", "-perm -111", "-perm /4000", "-perm u+rw,u-r", "-perm a=r,u+w", "-perm ug=rx,o-x", "-perm /go+w,a-w",
                      "-perm -u=rwx,g=rx,o=rx", "-perm u+x,", "-perm 12345", "-perm u", "-perm +x"])
    samples = []
    # ---------------------------------------------------------------- octal
    for prefix, kind in PREFIX.items():
        for nd in (3, 4):
            ds, asm = [], []
            for _ in range(nd):
                c = sym_char()
                ds.append(c)
                asm.append(z3.And(z3.UGE(c, 48), z3.ULE(c, 55)))
            r = B.parse(["-perm " + prefix] + ds, extra_assume=asm)
            kinds, bits, other = extract(r)
            want = z3.BitVecVal(0, 32)
            for c in ds:
                want = want * 8 + (c - 48)
            bad = b_or(other, b_not(kinds[kind]), bits != want)
            res, m = B.solve("octal:%s%d" % (prefix or "=", nd), r.assume, bad)
            if res == z3.sat:
                report(B, rep, "octal", model_string(m, r.spec), kind, m.eval(want, model_completion=True).as_long())
    samples.append(dict(kind="octal", digits=[3, 4], prefixes=list(PREFIX), values="all (symbolic digits)"))
    # ---------------------------------------------------------------- symbolic clause lists
    shapes = [[(1, 1)], [(2, 1)], [(1, 2)], [(2, 2)], [(1, 1), (1, 1)], [(2, 1), (1, 2)], [(1, 2), (2, 1)], [(1, 1), (1, 1), (1, 1)]]
    if tier == "thorough":
        shapes += [[(2, 2), (2, 2)], [(3, 3)], [(2, 1), (1, 2), (1, 1)], [(1, 1), (1, 1), (1, 1), (1, 1)], [(3, 1), (1, 3)]]
    for shape in shapes:
        for prefix, kind in PREFIX.items():
            if tier == "quick" and prefix and len(shape) > 2:
                continue
            spec, asm, clauses = ["-perm " + prefix], [], []
            for ci, (nw, np_) in enumerate(shape):
                if ci:
                    spec.append(",")
                who, perms = [], []
                for _ in range(nw):
                    c, a = letter("ugoa"); who.append(c); asm.append(a); spec.append(c)
                opc, a = letter("+-="); asm.append(a); spec.append(opc)
                for _ in range(np_):
                    c, a = letter("rwx"); perms.append(c); asm.append(a); spec.append(c)
                clauses.append((who, opc, perms))
            r = B.parse(spec, extra_assume=asm)
            kinds, bits, other = extract(r)
            strict = chmod_fold(clauses, ())
            allowed = chmod_fold(clauses, dev)
            tag = "clauses:%s%s" % (prefix or "=", "+".join("%dx%d" % s for s in shape))
            # neither the chmod result nor the recorded deviation of it (a result equal to chmod's is right even where the deviation applies)
            bad = b_or(other, b_not(kinds[kind]), z3.And(bits != allowed, bits != strict))
            res, m = B.solve(tag, r.assume, bad)
            if res == z3.sat:
                report(B, rep, "symbolic", model_string(m, spec), kind, m.eval(strict, model_completion=True).as_long())
            if dev and len(shape) > 1:
                res2, m2 = B.solve(tag + ":known:minus-clause", r.assume, z3.And(bits == allowed, allowed != strict))
                if res2 == z3.sat:
                    text = model_string(m2, spec)
                    want = m2.eval(strict, model_completion=True).as_long()
                    d, _ = B.native_all([text])[0]
                    got = native_bits(d)
                    if got is not None and got != want:
                        rep.violation("minus-clause", DEVIATIONS["minus-clause"] + "; witness %r: native %04o, chmod %04o" % (text, got, want), dict(input=text))
    samples.append(dict(kind="clause lists", shapes=["+".join("%dwho x %dperm" % s for s in sh) for sh in shapes], letters="symbolic", operators="symbolic"))
    # ---------------------------------------------------------------- emitted mask / constant per check kind
    emit_check(B, rep, samples)
    cov = B.coverage_common()
    cov.update(explanation="parse(\"-perm ...\") executed symbolically from MIR for all octal values (3 and 4 digits, 3 prefixes) and for "
               "clause lists of the listed shapes with every letter and operator symbolic; z3 proves Mode bits = chmod fold and "
               "check kind = prefix; compile_perm_check executed with symbolic bits: emitted (mask, constant, comparison) per kind",
               bounds=dict(clauses="1..3 (thorough 4)", who_letters="1..2 (3)", perm_letters="1..2 (3)"), samples=samples,
               outside="longer clause lists; argument words with trailing junk (C05's subject)",
               evaluations=len(rep.queries), distinct_nontrivial=len(rep.queries))
    rep.coverage = cov


def emit_check(B, rep, samples):
    """compile_perm_check(buffer, check) with symbolic mode bits: the emitted text must be the documented comparison"""
    from mirsym.values import Seg
    for kind in PREFIX.values():
        bits = z3.BitVec("pbits_" + kind, 32)
        check = Adt("PermCheck", kind, [Adt("Permission", None, [Adt("Mode", None, [bits])])])
        E = B.engine("dev")
        I = E.fresh()
        st = St()
        cell = ("tmp", "buf", kind)
        st.store[cell] = StringV(())
        f, env = E._resolve("compile_perm_check", {})
        try:
            outs = I.call_fn(f, [Ref(cell), ValRef(check)], st, env)
        except Unsupported as e:
            raise Inconclusive("unsupported construct while encoding compile_perm_check: %s" % e)
        B.fn_seen |= I.stats["fns"]
        if len(outs) != 1 or isinstance(outs[0][1], Panic):
            rep.violation("emit:" + kind, "compile_perm_check forks or panics for " + kind, dict(kind=kind))
            continue
        text = outs[0][0].store[cell]
        # semantic: the emitted expression, evaluated by Engine S on a symbolic file mode, has the documented truth value for every
        # value of the permission bits (the text may depend on the bits: every alternative is examined)
        from scheme.reader import read_all, ReadError
        from scheme.eval import FileRec, Machine, truth, RuntimeErr
        frec = FileRec("c08" + kind)
        mode = frec.mode
        spec = {"Equal": (mode & 0o7777) == bits, "AtLeast": (mode & bits) == bits, "Any": (mode & bits) != 0}[kind]
        bad = False
        shown = None
        for g, x in alts_of(text):
            try:
                data = read_all(list(x.items))
                if len(data) != 1:
                    raise ReadError("%d forms" % len(data))
                M = Machine(frec)
                tv = truth(M.eval(data[0], {}, True))
                wrong = b_or(M.err, z3.Xor(tv if is_sym(tv) else z3.BoolVal(bool(tv)), spec))
            except (ReadError, RuntimeErr) as e:
                wrong = True
            bad = b_or(bad, b_and(g, wrong))
        res, m = B.solve("emit:" + kind, list(frec.constraints()) + [z3.ULE(bits, 0o7777)], bad)
        if res == z3.sat:
            bv = m.eval(bits, model_completion=True).as_long()
            mv = m.eval(mode, model_completion=True).as_long()
            pre = {"Equal": "", "AtLeast": "-", "Any": "/"}[kind]
            textin = "-perm %s%04o" % (pre, bv)
            d = B.ctx.run_native([textin], "debug")[0]
            sch = d.get("scheme", "")
            want = {"Equal": (mv & 0o7777) == bv, "AtLeast": (mv & bv) == bv, "Any": (mv & bv) != 0}[kind]
            got = eval_native_perm(sch, mv)
            if got is None or got == want:
                rep.inconclusive.append("emitted-comparison witness %r (mode %o) does not reproduce natively" % (textin, mv))
            else:
                rep.violation("emit:" + kind, "%r on a file of mode %04o: the emitted test is %s, the prefix rule says %s" % (textin, mv & 0o7777, got, want),
                              dict(input=textin, mode=mv, expected=want))
    samples.append(dict(kind="emitted comparison", check_kinds=list(PREFIX.values()), bits="symbolic u32"))


def eval_native_perm(scheme_text, mode):
    """evaluate the permission comparison of a natively emitted program on a concrete mode (three documented shapes)"""
    m1 = re.search(r"\(= \(logand \(mode\) (\d+)\) (\d+)\)", scheme_text)
    m3 = re.search(r"\(not \(= \(logand \(mode\) (\d+)\) 0\)\)", scheme_text)
    if m3:
        return (mode & int(m3.group(1))) != 0
    if m1:
        return (mode & int(m1.group(1))) == int(m1.group(2))
    return None


def native_bits(d):
    if d.get("parse") != "ok":
        return None
    m = re.search(r"logand \(mode\) (\d+)\) (\d+)\)", d.get("scheme", ""))
    sch = d.get("scheme", "")
    m1 = re.search(r"\(= \(logand \(mode\) 4095\) (\d+)\)", sch)
    if m1:
        return int(m1.group(1))
    m2 = re.search(r"\(= \(logand \(mode\) (\d+)\) (\d+)\)", sch)
    if m2:
        return int(m2.group(2))
    m3 = re.search(r"\(not \(= \(logand \(mode\) (\d+)\) 0\)\)", sch)
    if m3:
        return int(m3.group(1))
    return None


def report(B, rep, fam, text, kind, want_bits):
    d, r = B.native_all([text])[0]
    got = native_bits(d)
    kind_ok = ("Perm(%s(" % kind) in (d.get("tree") or "")
    if got == want_bits and kind_ok:
        rep.inconclusive.append("counterexample %r does not reproduce natively" % text)
        return
    rep.violation("perm:" + fam, "%r: native %s bits %s, chmod says %s with %04o" % (text, d.get("tree") or d.get("parse"), "%04o" % got if got is not None else None, kind, want_bits),
                  dict(input=text, expected_kind=kind, expected_bits=want_bits, native=d))


def replay(ctx, path):
    import json
    rp = json.load(open(path))["replay"]
    if "input" not in rp:
        print(rp)
        return 1
    d = ctx.run_native([rp["input"]], "debug")[0]
    got = native_bits(d)
    print("input=%r native tree=%s bits=%s expected=%s" % (rp["input"], d.get("tree") or d.get("parse"), got, rp.get("expected_bits")))
    return 1 if got != rp.get("expected_bits") else 0
