# Tree construction helpers shared by the code-generator properties: leaves are obtained by running the
# REAL parser (Engine M, concrete mode) on find syntax, operators are built from the public constructors.
from .common import *

SUPPORTED_LEAVES = [
    "-true", "-false", "-empty", "-executable", "-readable", "-writable", "-name foo", "-iname Foo", "-path ./a/b", "-ipath './A*'",
    "-name 'a*'", "-uid 7", "-gid +3", "-inum -9", "-links 2", "-mirror-count +1", "-stripe-count 4", "-size +3k", "-size -20c",
    "-size 5", "-amin 44", "-atime +3", "-cmin -2", "-ctime 1", "-mmin +7", "-mtime 3h", "-perm 644", "-perm -u+x", "-perm /g=w",
    "-type f", "-type f,d,l", "-pool p1", "-xattr user.a", "-xattr-match user.a val", "-xattr-match user.a 'v*'",
    "-print", "-print0", "-fprint out1", "-fprint0 out2", "-printf '%p %s\\n'", "-printf 'x'", "-fprintf out3 '%U\\n'",
    "-print-file-fid", "-quit",
]
UNSUPPORTED_LEAVES = {
    "-anewer f": "AccessNewer", "-cnewer f": "ChangeNewer", "-mnewer f": "ModifyNewer", "-fstype ext4": "FsType", "-group g": "Group",
    "-ilname x": "InsensitiveLinkName", "-iregex r": "InsensitiveRegex", "-regex r": "Regex", "-samefile s": "Samefile", "-user u": "User",
    "-nouser": None, "-nogroup": None, "nope": "XDev", "-prune": "Prune", "-ls": "List", "-fls out": "FileList",
    "-printf '%d'": "Depth", "-printf '%D'": "DeviceNumber", "-printf '%F'": "FsType", "-printf '%l'": "SymbolicTarget",
    "-printf '%M'": "PermissionsSymbolic", "-printf '%Y'": "TypeSymlink", "-printf '%Z'": "SecurityContext",
    "-printf 'a%pb%Zc\\n'": "SecurityContext", "-fprintf o '%s %d'": "Depth", "-printf 'a\\cb\\n'": "Clear", "-fprintf o '%p\\c'": "Clear",
}


class Trees:
    def __init__(self, B):
        self.B = B
        self.cache = {}

    def leaf(self, text):
        """(value, sexpr) of the tree the real parser returns for `text`"""
        if text not in self.cache:
            r = self.B.parse([text])
            if len(r.alts) != 1 or not is_ok(r.alts[0][1]):
                raise Inconclusive("leaf %r does not parse: %r" % (text, r.alts[0][1]))
            self.cache[text] = r.alts[0][1].fields[0][1]
        return self.cache[text], '(s "%s")' % text.replace("\\", "\\\\").replace('"', '\\"')

    @staticmethod
    def op(variant, *kids):
        vals = [k[0] for k in kids]
        name = {"And": "and", "Or": "or", "List": "list", "Not": "not", "Precedence": "prec"}[variant]
        return (Adt("Expression", "Operator", [BoxV(Adt("Operator", variant, vals), "Rc")]),
                "(%s %s)" % (name, " ".join(k[1] for k in kids)))


def compile_tree(B, tree, opts=None, profile="dev"):
    """symbolically execute scheme::compile on a tree value -> Run (alts: Result / Panic), keeps engine + states"""
    if opts is None:
        opts = Struct("RunOptions", ("depth", "threads"), (False, Adt("Option", "None")))
    return B.call("scheme::compile", [ValRef(tree), ValRef(opts)], profile=profile, no_merge=True)


def render(B, run, ce, mdt="/", st=None):
    """CompiledExpression::scheme(mdt) on the engine of `run` -> rope items"""
    I = run.I
    E = B.engine(I.profile)
    f, env = E._resolve("CompiledExpression::scheme", {"S": "&str"})
    from mirsym.values import static_str
    arg = static_str(mdt) if isinstance(mdt, str) else mdt
    outs = I.call_fn(f, [ValRef(ce), arg], st or St(), env)
    if len(outs) != 1 or isinstance(outs[0][1], Panic):
        raise Inconclusive("scheme() forked or panicked")
    if isinstance(outs[0][1], Union):
        raise Inconclusive("scheme() returns different texts depending on the symbolic input (use render_alts)")
    return outs[0][1].items


def render_alts(B, run, ce, mdt="/", st=None):
    """as render, for renderings whose text depends on symbolic input -> [(guard, rope items)]"""
    I = run.I
    E = B.engine(I.profile)
    f, env = E._resolve("CompiledExpression::scheme", {"S": "&str"})
    from mirsym.values import static_str
    arg = static_str(mdt) if isinstance(mdt, str) else mdt
    st = st or St()
    n0 = len(st.pc)
    res = []
    for s_, v in I.call_fn(f, [ValRef(ce), arg], st, env):
        if isinstance(v, Panic):
            raise Inconclusive("scheme() panicked")
        g = b_and(*s_.pc[n0:])
        for g2, x in alts_of(v):
            res.append((b_and(g, g2), x.items))
    return res


def rope_text(items):
    return "".join(chr(c) if isinstance(c, int) else "{%s}" % (c,) for c in items)
