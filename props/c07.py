# C07 -- numbers are exact or rejected; nothing wraps, truncates or saturates.
# For every numeric primary, parse("<kw> [sign]<n symbolic digits>[unit]") and then compile/scheme are executed from
# MIR (both profiles).  With V = the decimal value of the digit string (a wide bit-vector term):
#   * the input is accepted iff V fits the field (u32 ids/counts/threads, u64 links/sizes/times),
#   * the number in the tree equals V, sign and unit select the documented constructor,
#   * every integer literal the emitted program derives from it equals the mathematical value
#     (V, or V x unit for sizes) -- compared without wrap-around.
# Engine K: Kani proves the crate's digit parsers against the decimal value on the compiled code (anchor for the
# model of str::parse used by Engine M).
import time
import z3
from .common import *
from .trees import *
from mirsym.values import Seg

PID = "C07"
DEVIATIONS = {"size-overflow": "a -size count whose product with the unit exceeds u64 is neither rejected nor exact: the debug build "
                               "panics, the release build emits the wrapped product"}
U32_KW = [("-uid", "UserId"), ("-gid", "GroupId"), ("-inum", "InodeNumber"), ("-mirror-count", "MirrorCount"), ("-stripe-count", "StripeCount")]
U64_KW = [("-links", "Links")]
SIZE_UNITS = {"c": ("Byte", 1), "w": ("Word", 2), "b": ("Block", 512), "k": ("KiloByte", 1 << 10), "M": ("MegaByte", 1 << 20),
              "G": ("GigaByte", 1 << 30), "T": ("TeraByte", 1 << 40), "": ("Block", 512)}
TIME_UNITS = {"s": "Second", "m": "Minute", "h": "Hour", "d": "Day"}
TIME_KW = [("-amin", "AccessTime", "Minute"), ("-atime", "AccessTime", "Day"), ("-mmin", "ModifyTime", "Minute"), ("-mtime", "ModifyTime", "Day"),
           ("-cmin", "ChangeTime", "Minute"), ("-ctime", "ChangeTime", "Day")]
SIGNS = {"": "Equal", "+": "GreaterThan", "-": "LesserThan"}
WIDE = 140


def digits(n):
    ds, asm = [], []
    for _ in range(n):
        c = sym_char()
        ds.append(c)
        asm.append(z3.And(z3.UGE(c, 48), z3.ULE(c, 57)))
    return ds, asm


def value_of(ds):
    acc = z3.BitVecVal(0, WIDE)
    for c in ds:
        acc = acc * 10 + (z3.ZeroExt(WIDE - 32, c) - 48)
    return acc


def wide(t):
    if isinstance(t, int):
        return z3.BitVecVal(t, WIDE)
    return z3.ZeroExt(WIDE - t.size(), t)


def number_in_tree(tree, path):
    """follow constructor names; returns (guard_shape_ok, number term)"""
    v = tree
    for name in path:
        if isinstance(v, (BoxV, ValRef)):
            v = v.v
        if not isinstance(v, Adt) or v.variant != name or not v.fields:
            return False, None
        v = v.fields[0]
    return True, v


def emitted_numbers(items):
    return [it for it in items if isinstance(it, Seg) and it.kind == "dec"]


def check_family(B, rep, known, name, spec, assume, V, bits, path, expected_consts, profile, with_threads=False, mult=1):
    """expected_consts: function(tree) -> list of wide terms that the emitted program must contain as its number literals (in order)"""
    r = B.parse(spec, profile, extra_assume=assume)
    fits = z3.ULT(V, z3.BitVecVal(1 << bits, WIDE))
    if mult != 1 and "size-overflow" not in known:
        # a size is exact-or-rejected as a whole: the count AND count x unit must fit
        fits = z3.And(fits, z3.ULT(V * mult, z3.BitVecVal(1 << bits, WIDE)))
    ok_g, bad_tree, panic_g = False, False, False
    bad_emit, emit_panic = False, False
    for g, v in r.alts:
        if isinstance(v, Panic):
            panic_g = b_or(panic_g, g)
            continue
        if not is_ok(v):
            continue
        ok_g = b_or(ok_g, g)
        opts, tree = v.fields[0]
        for g1, t1 in flatten_value(tree):
            for g0, o1 in flatten_value(opts):
                gg = b_and(g, g1, g0)
                if with_threads:
                    thr = o1.fields[1]
                    shape = isinstance(thr, Adt) and thr.variant == "Some"
                    num = thr.fields[0] if shape else None
                else:
                    shape, num = number_in_tree(t1, path)
                if not shape:
                    bad_tree = b_or(bad_tree, gg)
                else:
                    bad_tree = b_or(bad_tree, b_and(gg, wide(num) != V))
                cr = compile_tree(B, t1, o1, profile)
                for g2, cv in cr.alts:
                    if isinstance(cv, Panic):
                        emit_panic = b_or(emit_panic, b_and(gg, g2))
                    elif is_ok(cv):
                        for g3, ce in flatten_value(cv.fields[0]):
                            items = render(B, cr, ce)
                            nums = [n_ for n_ in emitted_numbers(items) if not any(is_sym(n_.term) and n_.term.eq(t) for t in cr.I.clock_reads)]
                            want = expected_consts(V)
                            if len(nums) != len(want):
                                bad_emit = b_or(bad_emit, b_and(gg, g2, g3))
                            else:
                                for n_, w in zip(nums, want):
                                    bad_emit = b_or(bad_emit, b_and(gg, g2, g3, wide(n_.term) != w))
    A = r.assume
    tag = "%s:%s" % (name, profile)
    results = {}
    for cname, bad in (("accepted-iff-fits", z3.Xor(ok_g if is_sym(ok_g) else z3.BoolVal(ok_g), fits)), ("tree-carries-the-value", bad_tree),
                       ("no-panic-in-parse", panic_g)):
        res, m = B.solve(tag + ":" + cname, A, bad)
        if res == z3.sat:
            report(B, rep, known, cname, model_string(m, spec), m.eval(V, model_completion=True).as_long(), profile)
    # emitted constants: exact (no wrap, no panic)
    res, m = B.solve(tag + ":emitted-constants-exact", A, b_or(bad_emit, emit_panic))
    if res == z3.sat:
        report(B, rep, known, "emitted-constant", model_string(m, spec), m.eval(V, model_completion=True).as_long(), profile)


def run(ctx, rep, tier):
    B = Bench(ctx, rep)
    known = {k["class"] for k in vlib.known_for(PID)}
    B.validate_parse(["-uid 4294967295", "-uid 4294967296", "-links 18446744073709551615", "-links 18446744073709551616", "-size 99999999999T",
                      "-size 007", "-uid 0000000000000000000005", "-threads 4294967296", "-mtime +18446744073709551615", "-size 36028797018963968b"] +
                     validation_corpus(ctx, seed=rep.seed, n_random=5)[:40])
    q = tier == "quick"
    lens32 = (1, 9, 10, 11) if q else (1, 2, 5, 9, 10, 11, 12, 20, 25, 40)
    lens64 = (1, 19, 20, 21) if q else (1, 2, 10, 18, 19, 20, 21, 22, 30)      # 40 digits: the u64 queries time out (600 s each, measured)
    profiles = ("dev", "rel")
    samples = []
    t0 = time.time()
    for kw, node in U32_KW[: (2 if q else 5)] + [("-threads", None)]:
        for n in lens32:
            for sign, cmpv in (list(SIGNS.items()) if kw != "-threads" else [("", None)])[: (3 if not q or n in (10,) else 1)]:
                ds, asm = digits(n)
                spec = [kw + " " + sign] + ds + ([" -true"] if kw == "-threads" else [])
                V = value_of(ds)
                for profile in profiles if n in (10, 11) or not q else ("dev",):
                    if kw == "-threads":
                        check_family(B, rep, known, "%s %dd" % (kw, n), spec, asm, V, 32, None, lambda V: [V], profile, with_threads=True)
                    else:
                        check_family(B, rep, known, "%s %s%dd" % (kw, sign, n), spec, asm, V, 32, ["Test", node, cmpv], lambda V: [V], profile)
        samples.append(dict(keyword=kw, digit_lengths=list(lens32)))
    for kw, node in U64_KW:
        for n in lens64:
            ds, asm = digits(n)
            V = value_of(ds)
            for profile in profiles if n in (20,) or not q else ("dev",):
                check_family(B, rep, known, "%s %dd" % (kw, n), [kw + " "] + ds, asm, V, 64, ["Test", node, "Equal"], lambda V: [V], profile)
        samples.append(dict(keyword=kw, digit_lengths=list(lens64)))
    # sizes: count x unit
    for unit, (uname, mult) in (list(SIZE_UNITS.items()) if not q else [(u, SIZE_UNITS[u]) for u in ("c", "k", "T", "")]):
        for n in ((1, 8, 17, 20) if q else (1, 5, 8, 10, 14, 17, 19, 20, 21)):
            for sign, cmpv in list(SIGNS.items())[: (1 if q else 3)]:
                ds, asm = digits(n)
                V = value_of(ds)
                consts = (lambda V, mult=mult: [V * mult])
                for profile in profiles:
                    check_family(B, rep, known, "-size %s%dd%s" % (sign, n, unit), ["-size " + sign] + ds + [unit], asm, V, 64,
                                 ["Test", "Size", cmpv, uname], consts, profile, mult=mult)
        samples.append(dict(keyword="-size", unit=unit or "(default block)", multiplier=mult))
    # times: count is printed, unit length separately
    for kw, node, dflt in (TIME_KW if not q else TIME_KW[:2]):
        for unit in ([""] + list(TIME_UNITS) if not q else ["", "h"]):
            for n in ((1, 20) if q else (1, 10, 19, 20, 21)):
                ds, asm = digits(n)
                V = value_of(ds)
                uname = TIME_UNITS.get(unit, dflt)
                secs = {"Second": 1, "Minute": 60, "Hour": 3600, "Day": 86400}[uname]
                for profile in ("dev",) if q else profiles:
                    check_family(B, rep, known, "%s %dd%s" % (kw, n, unit), [kw + " "] + ds + [unit], asm, V, 64,
                                 ["Test", node, "Equal", uname], lambda V: [V], profile)
        samples.append(dict(keyword=kw))
    # Engine K anchors
    if not os.environ.get("VERIF_SKIP_KANI"):
        ctx.kani_prepare([("verif_kani_prelude.rs", "src/find_parser/mod.rs", "verif_kani_prelude"), ("verif_kani_pub.rs", "src/lib.rs", "verif_kani_pub")])
        hs = ["c07_u64_digits_exact", "c07_u32_digits_exact_or_rejected"] + (["c07_byte_size_overflow"] if "size-overflow" in known else [])
        res = ctx.kani_run(hs, timeout=900 if q else 3000, jobs=4)
        for h, r_ in res.items():
            rep.query("kani:" + h, r_["status"], r_["seconds"])
            if h == "c07_byte_size_overflow":
                # this harness states the (violated) exactness of byte_size: FAILED = the known overflow, reproduced on compiled code
                if r_["status"] == "FAILED" and "multiply with overflow" in r_["log"]:
                    if "size-overflow" in known:
                        rep.violation("size-overflow", DEVIATIONS["size-overflow"] + "; Kani: attempt to multiply with overflow in Size::byte_size", dict(harness=h))
                    else:
                        rep.violation("kani:" + h, "Size::byte_size overflows", dict(harness=h))
                elif r_["status"] not in ("SUCCESS", "FAILED"):
                    rep.inconclusive.append("Kani harness %s: %s" % (h, r_["status"]))
                continue
            if r_["status"] == "FAILED":
                fc = [l.strip() for l in r_["log"].splitlines() if "Failed Checks" in l]
                rep.violation("kani:" + h, "Kani harness %s failed: %s" % (h, "; ".join(fc)[:300]), dict(harness=h, failed=fc))
            elif r_["status"] != "SUCCESS":
                rep.inconclusive.append("Kani harness %s: %s" % (h, r_["status"]))
        samples.append(dict(kani={h: (r_["status"], r_["seconds"]) for h, r_ in res.items()}))
    cov = B.coverage_common()
    cov.update(explanation="per numeric primary: digit strings of the listed lengths with every digit symbolic (sign, unit per family), parse + "
               "compile + scheme executed from MIR; z3 proves acceptance <=> value fits, tree number = decimal value, emitted literals = "
               "mathematical value (140-bit arithmetic, no wrap); Kani anchors the digit parsers on the compiled crate",
               bounds=dict(u32_digit_lengths=list(lens32), u64_digit_lengths=list(lens64)), samples=samples,
               outside="digit strings of other lengths; leading '+' handled per family; the str::parse model itself is anchored by Kani for <= 10 (u32) / 6 (u64) digits",
               evaluations=len(rep.queries), distinct_nontrivial=len(rep.queries))
    rep.coverage = cov


def report(B, rep, known, cname, text, V, profile):
    d, r = B.native_all([text])[0]
    nat = d if profile == "dev" else r
    sch = nat.get("scheme", "")
    nums = [int(x) for x in re.findall(r"(?<![\w:.#\\-])(\d+)(?![\w:])", sch)]
    overflow_size = text.startswith("-size") and (nat.get("compile") == "panic" or (nat.get("compile") == "ok"))
    if cname == "emitted-constant" and text.startswith("-size"):
        unit = text.strip()[-1] if text.strip()[-1] in "cwbkMGT" else ""
        mult = SIZE_UNITS[unit][1]
        exact = V * mult
        if nat.get("compile") == "panic" or (nat.get("compile") == "ok" and exact not in nums):
            if exact >= (1 << 64) and "size-overflow" in known:
                rep.violation("size-overflow", DEVIATIONS["size-overflow"] + "; witness %r (%s build: %s)" % (text, "debug" if profile == "dev" else "release",
                              nat.get("panic") or "emits %s" % [n for n in nums if n > 1 << 20][:2]), dict(input=text, profile=profile))
                return
            rep.violation("numbers:" + cname, "%r (%s): exact byte size %d not emitted: %s" % (text, profile, exact, nat.get("panic") or nums), dict(input=text, profile=profile, native=nat))
            return
        rep.inconclusive.append("counterexample %r (%s, %s) does not reproduce natively" % (text, cname, profile))
        return
    # generic: confirm natively that the claim fails
    ok = nat.get("parse") == "ok"
    digits_ = re.sub(r"\D", "", text.split(None, 1)[1] if " " in text else "")
    if cname == "accepted-iff-fits":
        fits = V < (1 << (64 if any(text.startswith(k) for k in ("-links", "-size", "-a", "-m", "-c")) else 32))
        if ok == fits:
            rep.inconclusive.append("counterexample %r (%s) does not reproduce natively" % (text, cname))
            return
    elif cname in ("tree-carries-the-value", "emitted-constant"):
        hay = (nat.get("tree", "") + " " + nat.get("opts", "")) if cname == "tree-carries-the-value" else sch
        if re.search(r"(?<!\d)%d(?!\d)" % V, hay) and nat.get("compile") != "panic":
            rep.inconclusive.append("counterexample %r (%s) does not reproduce natively" % (text, cname))
            return
    rep.violation("numbers:" + cname, "%r (%s build): value %d; native parse=%s tree=%s" % (text, "debug" if profile == "dev" else "release", V, nat.get("parse"), nat.get("tree") or nat.get("err") or nat.get("panic")),
                  dict(input=text, value=V, profile=profile, native=nat))


def replay(ctx, path):
    import json
    rp = json.load(open(path))["replay"]
    if "input" not in rp:
        print(rp)
        return 1
    d = ctx.run_native([rp["input"]], "debug")[0]
    r = ctx.run_native([rp["input"]], "release")[0]
    print("input=%r\n debug: %s %s %s\n release: %s %s" % (rp["input"], d.get("parse"), d.get("tree") or d.get("err"), d.get("compile"), r.get("parse"), r.get("compile")))
    return 1
