# C06 -- equivalent spellings give identical results (relational: two symbolic executions of the
# real parse() from MIR are compared; no specification of the language is needed).
import time
import z3
from .common import *
from mirsym.stdmodel import struct_eq

PID = "C06"
BLANKS = (32, 9, 13, 10)
DEVIATIONS = {
    "bare-word-terminator": "an unquoted argument word ends only at space, newline or ')': a tab or CR after it is swallowed "
                            "(e.g. \"-name foo\\t-print\" parses as Name(\"foo\\t-print\"))",
    "quotes-refused": "numeric, size, time and type arguments (and the numbers of -threads/-maxdepth/-mindepth) are read by parsers that do not "
                      "accept the quoted spelling: `-uid 5` parses, `-uid '5'` is an error",
}
# call sites of the recorded deviation `quotes-refused` (every other keyword must accept all three spellings)
QUOTES_REFUSED_SITES = ("-uid", "-gid", "-inum", "-links", "-mirror-count", "-stripe-count", "-size", "-amin", "-atime", "-cmin", "-ctime",
                        "-mmin", "-mtime", "-type", "-threads")

# word sequences chosen to contain every junction kind.  Items: plain words; ("bare", w) marks an unquoted argument word
BASES = [
    ["-depth"], ["-threads", ("bare", "4")], ["-depth", "-threads", ("bare", "4")],
    ["-true"], ["-true", "-false"], ["!", "-true"], ["(", "-true", ")"], ["-true", ",", "-false"], ["-true", "-o", "-false"],
    ["-true", "-a", "-false"], ["-true", "-and", "(", "-false", "-or", "-print", ")"],
    ["-uid", ("bare", "5"), "-print"], ["-size", ("bare", "+3k"), "-o", "-empty"], ["-name", ("bare", "foo"), "-print"],
    ["-name", "'a b'", "-print"], ["-name", '"x"', ")"], ["-perm", ("bare", "u+x"), "-quit"], ["-type", ("bare", "f,d"), "!", "-empty"],
    ["-depth", "-threads", ("bare", "3"), "-print"], ["-printf", "'%p\\n'", "-false"], ["-fprintf", ("bare", "out"), "'%p'", "-true"],
    ["-xattr-match", ("bare", "a"), ("bare", "b"), "-ls"], ["-mmin", ("bare", "-5m"), ",", "-print0"], ["-print-file-fid", "-prune"],
    ["(", "(", "-true", ")", ")"], ["-bogus", "-true"], ["-true", "-a"], ["-name"],
]


def sym_blank():
    c = sym_char()
    return c, z3.Or(*[c == b for b in BLANKS])


def same_result(I, a_alts, b_alts):
    """both runs give equal (options, tree) or both fail (error texts may differ: they quote the spelling)"""
    st = St()

    def norm(alts):
        out = []
        for g, v in alts:
            if isinstance(v, Panic):
                out.append((g, Adt("Spec", "Panic")))
            elif is_ok(v):
                out.append((g, v.fields[0]))
            else:
                out.append((g, Adt("Spec", "Error")))
        return merge_many(out)
    return struct_eq(I, norm(a_alts), norm(b_alts), st)


def words_text(base):
    return " ".join(w if isinstance(w, str) else w[1] for w in base)


def run(ctx, rep, tier):
    B = Bench(ctx, rep)
    known = {k["class"] for k in vlib.known_for(PID)}
    B.validate_parse(validation_corpus(ctx, seed=rep.seed, n_random=20) +
                     ["-name foo\t-print", " -true\t\n-false\r", "-name\tfoo", "-uid 5\t-print", "( -true )", "(-true)", "-true -and -false"])
    samples = []
    maxgap = 1 if tier == "quick" else 2
    bases = BASES if tier == "thorough" else BASES[:21]
    # ------------------------------------------------------------- (i) blanks
    n = 0
    for base in bases:
        ref = B.parse([words_text(base)])
        for glen in range(1, maxgap + 1):
            spec, assume, after_bare = [], [], []
            lead = []
            for i, w in enumerate(base):
                if i == 0:
                    # leading blanks (0..1)
                    pass
                else:
                    for _ in range(glen):
                        c, a = sym_blank()
                        spec.append(c)
                        assume.append(a)
                        if not isinstance(base[i - 1], str) and _ == 0:
                            after_bare.append(c)
                spec.append(w if isinstance(w, str) else w[1])
            # trailing + leading symbolic blank
            c, a = sym_blank(); spec.insert(0, c); assume.append(a)
            c, a = sym_blank(); spec.append(c); assume.append(a)
            if not isinstance(base[-1], str):
                after_bare.append(c)
            dev = [z3.Or(c == 32, c == 10) for c in after_bare] if "bare-word-terminator" in known else []
            r = B.parse(spec, extra_assume=assume)
            eq = same_result(r.I, r.alts, ref.alts)
            name = "blanks:%s:g%d" % (words_text(base), glen)
            res, m = B.solve(name, r.assume + dev, b_not(eq))
            n += 1
            if res == z3.sat:
                report(B, rep, "blanks", model_string(m, spec), words_text(base))
            if "bare-word-terminator" in known and after_bare:
                res2, m2 = B.solve(name + ":known", r.assume, b_not(eq))
                if res2 == z3.sat:
                    t = model_string(m2, spec)
                    if native_differs(B, t, words_text(base)):
                        rep.violation("bare-word-terminator", DEVIATIONS["bare-word-terminator"] + "; witness %r" % t, dict(a=t, b=words_text(base)))
    samples.append(dict(kind="blank variants", bases=len(bases), gap_lengths=list(range(1, maxgap + 1)), blank_set=["space", "tab", "CR", "LF"], queries=n))
    # ------------------------------------------------------------- (ii) quoting style
    klen = 2 if tier == "quick" else 3
    for kw in ("-name", "-fprint", "-pool", "-printf"):
        for k in range(1, klen + 1):
            cs = [sym_char() for _ in range(k)]
            # characters every style can carry, and that do not change lexing of a bare word
            ok = [z3.And(c != 39, c != 34, c != 32, c != 10, c != 41, c != 9, c != 13) for c in cs]
            runs = [B.parse([kw + " "] + cs + [" -true"], extra_assume=ok),
                    B.parse([kw + " '"] + cs + ["' -true"], extra_assume=ok),
                    B.parse([kw + ' "'] + cs + ['" -true'], extra_assume=ok)]
            for j, style in ((1, "single"), (2, "double")):
                eq = same_result(runs[0].I, runs[0].alts, runs[j].alts)
                res, m = B.solve("quoting:%s:k%d:bare-vs-%s" % (kw, k, style), runs[0].assume, b_not(eq))
                if res == z3.sat:
                    v = "".join(chr(model_char(m, c)) for c in cs)
                    a = "%s %s -true" % (kw, v)
                    b_ = "%s %s%s%s -true" % (kw, "'" if j == 1 else '"', v, "'" if j == 1 else '"')
                    report(B, rep, "quoting", a, b_)
    # ... and for arguments that are not free text: members of the argument language, bare vs quoted
    def lang(kw):
        """symbolic argument characters + assumptions: a short member-shaped word of the keyword's argument language"""
        def dg():
            c = sym_char()
            return c, z3.And(z3.UGE(c, 48), z3.ULE(c, 57))
        if kw == "-perm":
            cs = [sym_char() for _ in range(3)]
            return cs, [z3.And(z3.UGE(c, 48), z3.ULE(c, 55)) for c in cs]
        if kw == "-type":
            c = sym_char()
            return [c], [z3.Or(*[c == ord(x) for x in "bcdpfls"])]
        d1, a1 = dg()
        d2, a2 = dg()
        if kw == "-size":
            u = sym_char()
            return [d1, d2, u], [a1, a2, z3.Or(*[u == ord(x) for x in "bcwkMGT"])]
        if kw in ("-amin", "-atime", "-cmin", "-ctime", "-mmin", "-mtime"):
            u = sym_char()
            sg = sym_char()
            return [sg, d1, u], [a1, z3.Or(sg == ord("+"), sg == ord("-")), z3.Or(*[u == ord(x) for x in "smhd"])]
        return [d1, d2], [a1, a2]
    nonstring = ("-uid", "-links", "-size", "-mtime", "-type", "-perm", "-threads") if tier == "quick" else QUOTES_REFUSED_SITES + ("-perm",)
    for kw in nonstring:
        cs, ok = lang(kw)
        runs = [B.parse([kw + " "] + cs + [" -true"], extra_assume=ok),
                B.parse([kw + " '"] + cs + ["' -true"], extra_assume=ok),
                B.parse([kw + ' "'] + cs + ['" -true'], extra_assume=ok)]
        for j, style in ((1, "single"), (2, "double")):
            eq = same_result(runs[0].I, runs[0].alts, runs[j].alts)
            res, m = B.solve("quoting:%s:member:bare-vs-%s" % (kw, style), runs[0].assume, b_not(eq))
            if res == z3.sat:
                v = "".join(chr(model_char(m, c)) for c in cs)
                q_ = "'" if j == 1 else '"'
                a, b_ = "%s %s -true" % (kw, v), "%s %s%s%s -true" % (kw, q_, v, q_)
                if kw in QUOTES_REFUSED_SITES and "quotes-refused" in known:
                    da, db = native_pair(B, a, b_)
                    if da.get("parse") == "ok" and db.get("parse") == "err":
                        rep.violation("quotes-refused", DEVIATIONS["quotes-refused"] + "; witness %r vs %r" % (a, b_), dict(a=a, b=b_))
                        continue
                report(B, rep, "quoting", a, b_)
    samples.append(dict(kind="quoting styles of non-text arguments", keywords=list(nonstring)))
    # a quoted argument carries EVERY character except its own quote character (blanks, parentheses, the other quote ...): the tree
    # holds exactly the text between the quotes
    from spec import vocab as V_
    from mirsym.stdmodel import struct_eq as seq_
    true_leaf = Adt("Expression", "Test", [Adt("Test", "True")])
    for kw in ("-name", "-fprint", "-pool"):
        for k in range(1, klen + 1):
            for style, qch in (("single", "'"), ("double", '"')):
                cs = [sym_char() for _ in range(k)]
                asm = [c != ord(qch) for c in cs]
                r = B.parse([kw + " " + qch] + cs + [qch + " -true"], extra_assume=asm)
                want = Adt("Expression", "Operator", [BoxV(Adt("Operator", "And", [V_.node_for(kw, [StringV(cs)]), true_leaf]), "Rc")])
                good = False
                st_ = St()
                for g, v in r.alts:
                    if is_ok(v):
                        good = b_or(good, b_and(g, seq_(r.I, v.fields[0][1], want, st_)))
                res, m = B.solve("quoted-value:%s:k%d:%s" % (kw, k, style), r.assume, b_not(good))
                if res == z3.sat:
                    v = "".join(chr(model_char(m, c)) for c in cs)
                    text = "%s %s%s%s -true" % (kw, qch, v, qch)
                    d = B.ctx.run_native([text], "debug")[0]
                    if d.get("parse") == "ok" and ("(%s)" % json_like(v)) in (d.get("tree") or "").replace("\n", ""):
                        rep.inconclusive.append("quoted-value witness %r does not reproduce natively" % text)
                    else:
                        rep.violation("spelling:quoting", "%r: the %s-quoted argument %r is not carried as it stands: %s" % (text, style, v, (d.get("tree") or d.get("err") or d.get("parse"))[:160]),
                                      dict(a=text, b=text, native_a=d, native_b=d))
    samples.append(dict(kind="quoting styles", keywords=["-name", "-fprint", "-pool"], value_len=list(range(1, klen + 1))))
    # ------------------------------------------------------------- (iii) operator spellings, (iv) parentheses
    # slots padded with blanks so that positions stay concrete while the spelling is selected symbolically
    def slot(options, tag):
        w = max(len(o) for o in options)
        sel = z3.Int("sel_" + tag)
        chars = []
        for i in range(w):
            t = z3.BitVecVal(32, 32)
            for k, o in reversed(list(enumerate(options))):
                ch = ord(o[i]) if i < len(o) else 32
                t = z3.If(sel == k, z3.BitVecVal(ch, 32), t)
            chars.append(t)
        return chars, z3.And(sel >= 0, sel < len(options))

    operands = ["-true", "-name x", "! -false", "( -true -o -false )", "-print"]
    for oi, (a, b) in enumerate([(x, y) for x in operands for y in operands][: (9 if tier == "quick" else 25)]):
        for opname, spellings in (("and", ["", "-a", "-and"]), ("or", ["-o", "-or"])):
            ch, asm = slot(spellings, "%s%d" % (opname, oi))
            r = B.parse([a + " "] + ch + [" " + b], extra_assume=[asm])
            ref = B.parse(["%s %s %s" % (a, spellings[-1], b)])
            eq = same_result(r.I, r.alts, ref.alts)
            res, m = B.solve("spelling:%s:%s|%s" % (opname, a, b), r.assume, b_not(eq))
            if res == z3.sat:
                report(B, rep, "operator-spelling", model_string(m, [a + " "] + ch + [" " + b]), "%s %s %s" % (a, spellings[-1], b))
        # redundant parentheses around each operand, with or without inner blanks
        lp, a1 = slot(["", "(", "( "], "lp%d" % oi)
        rp, a2 = slot(["", ")", " )"], "rp%d" % oi)
        both = z3.Int("sel_lp%d" % oi) == z3.Int("sel_rp%d" % oi)
        r = B.parse(["-false -o "] + lp + [a] + rp + [" " + b], extra_assume=[a1, a2, both])
        ref = B.parse(["-false -o %s %s" % (a, b)])
        eq = same_result(r.I, r.alts, ref.alts)
        res, m = B.solve("parens:%s|%s" % (a, b), r.assume, b_not(eq))
        if res == z3.sat:
            report(B, rep, "redundant-parentheses", model_string(m, ["-false -o "] + lp + [a] + rp + [" " + b]), "-false -o %s %s" % (a, b))
    # redundant parentheses around a whole binary expression of every operator (a group may hold any expression, also a ',' list),
    # alone and as an operand
    for gi, (a, b) in enumerate([("-true", "-print"), ("-name x", "! -false")]):
        for conn in ("", "-a", "-o", ","):
            inner = ("%s %s %s" % (a, conn, b)).replace("  ", " ")
            for ctx_pre, ctx_post in (("", ""), ("-false -o ", ""), ("", " , -true")):
                lp, a1 = slot(["", "(", "( ", "( ("], "glp%d%s%d" % (gi, conn, len(ctx_pre) + len(ctx_post)))
                rp, a2 = slot(["", ")", " )", ") )"], "grp%d%s%d" % (gi, conn, len(ctx_pre) + len(ctx_post)))
                s1, s2 = z3.Int("sel_glp%d%s%d" % (gi, conn, len(ctx_pre) + len(ctx_post))), z3.Int("sel_grp%d%s%d" % (gi, conn, len(ctx_pre) + len(ctx_post)))
                if ctx_pre or ctx_post:
                    # as an operand the group is not redundant for the looser operators: compare with the explicitly grouped spelling
                    reftext = "%s( %s )%s" % (ctx_pre, inner, ctx_post)
                    both = z3.And(s1 == s2, s1 >= 1)
                else:
                    reftext = inner
                    both = s1 == s2
                r = B.parse([ctx_pre] + lp + [inner] + rp + [ctx_post], extra_assume=[a1, a2, both])
                ref = B.parse([reftext])
                if not any(is_ok(v) for _, v in ref.alts):
                    rep.inconclusive.append("reference spelling %r does not parse" % reftext)
                    continue
                eq = same_result(r.I, r.alts, ref.alts)
                res, m = B.solve("group:%s|%s|%s:%d" % (a, conn or "implicit", b, len(ctx_pre) + len(ctx_post)), r.assume, b_not(eq))
                if res == z3.sat:
                    report(B, rep, "redundant-parentheses", model_string(m, [ctx_pre] + lp + [inner] + rp + [ctx_post]), reftext)
    # redundant parentheses around the operands INSIDE a group, independently for each operand, so that an inner parenthesis stands
    # directly against the group's own one on either side (`( ( A ) -o B )`, `( A -o ( ( B ) ) )`), alone and under `!` / after `-a`
    pairs_in = [("-true", "-false")] if tier == "quick" else [("-true", "-false"), ("-name x", "! -print")]
    for gi, (a, b) in enumerate(pairs_in):
        for conn in ("", "-a", "-o", ","):
            for ci_, ctx_pre in enumerate(("", "! ", "-name a -a ") if tier != "quick" else ("", "! ")):
                tag = "in%d%s%d" % (gi, conn, ci_)
                la, q1 = slot(["", "(", "( ", "( ("], "la" + tag)
                ra, q2 = slot(["", ")", " )", ") )"], "ra" + tag)
                lb, q3 = slot(["", "(", "( ", "( ("], "lb" + tag)
                rb, q4 = slot(["", ")", " )", ") )"], "rb" + tag)
                same = z3.And(z3.Int("sel_la" + tag) == z3.Int("sel_ra" + tag), z3.Int("sel_lb" + tag) == z3.Int("sel_rb" + tag))
                spec = [ctx_pre + "( "] + la + [a] + ra + [" " + conn + " " if conn else " "] + lb + [b] + rb + [" )"]
                reftext = "%s( %s )" % (ctx_pre, ("%s %s %s" % (a, conn, b)).replace("  ", " "))
                r = B.parse(spec, extra_assume=[q1, q2, q3, q4, same])
                ref = B.parse([reftext])
                if not any(is_ok(v) for _, v in ref.alts):
                    rep.inconclusive.append("reference spelling %r does not parse" % reftext)
                    continue
                eq = same_result(r.I, r.alts, ref.alts)
                res, m = B.solve("inner-group:%s|%s|%s:%d" % (a, conn or "implicit", b, ci_), r.assume, b_not(eq))
                if res == z3.sat:
                    report(B, rep, "redundant-parentheses", model_string(m, spec), reftext)
    # chains of 3 (thorough: also 4) operands, every connector's spelling selected independently: the tree must not depend on which
    # connectors are written out
    chains = [["-true", "-name x", "-print"], ["-uid 1", "! -false", "-empty"]]
    if tier != "quick":
        chains += [["-true", "-false", "-empty", "-print"], ["( -true -o -false )", "-name x", "-uid 2", "-quit"]]
    for ci, ops_ in enumerate(chains):
        for opname, spellings in (("and", ["", "-a", "-and"]), ("or", ["-o", "-or"])):
            spec, asms = [ops_[0]], []
            for j, o in enumerate(ops_[1:]):
                ch, asm = slot(spellings, "ch%s%d_%d" % (opname, ci, j))
                spec += [" "] + ch + [" " + o]
                asms.append(asm)
            r = B.parse(spec, extra_assume=asms)
            reftext = (" %s " % spellings[-1]).join(ops_)
            ref = B.parse([reftext])
            eq = same_result(r.I, r.alts, ref.alts)
            res, m = B.solve("spelling-chain:%s:%d" % (opname, ci), r.assume, b_not(eq))
            if res == z3.sat:
                report(B, rep, "operator-spelling", model_string(m, spec), reftext)
    samples.append(dict(kind="operator spellings / redundant parentheses", operand_pairs=9 if tier == "quick" else 25, chains=len(chains)))
    # ------------------------------------------------------------- (v) empty / blank input
    ref = B.parse(["-true"])
    for k in range(0, 4):
        cs, asm = [], []
        for _ in range(k):
            c, a = sym_blank(); cs.append(c); asm.append(a)
        r = B.parse(cs if cs else [""], extra_assume=asm)
        eq = same_result(r.I, r.alts, ref.alts)
        res, m = B.solve("blank-input:%d" % k, r.assume, b_not(eq))
        if res == z3.sat:
            report(B, rep, "blank-input", model_string(m, cs), "-true")
    cov = B.coverage_common()
    cov.update(explanation="pairs of symbolic executions of parse() (MIR) on spelling variants; z3 decides equality of (options, tree) "
               "for every choice of blank characters / quoting style / operator spelling / redundant parentheses within the family",
               bounds=dict(gap_len=maxgap, quoted_value_len=klen, bases=len(bases)), samples=samples,
               outside="longer blank runs, longer values, expressions outside the base corpus",
               evaluations=len(rep.queries), distinct_nontrivial=len(rep.queries))
    rep.coverage = cov
    rep.assumptions = ["error results are compared as 'both fail' (messages quote the spelling)"]


def json_like(v):
    """Rust's Debug rendering of a string"""
    out = '"'
    for ch in v:
        if ch in '"\\':
            out += "\\" + ch
        elif ch == "\n":
            out += "\\n"
        elif ch == "\t":
            out += "\\t"
        elif ch == "\r":
            out += "\\r"
        elif ch == "'":
            out += "'"
        else:
            out += ch
    return out + '"'


def native_pair(B, a, b):
    ra, rb = B.native_all([a, b])
    return ra[0], rb[0]


def native_differs(B, a, b):
    da, db = native_pair(B, a, b)
    ka = (da.get("parse"), da.get("opts"), da.get("tree"))
    kb = (db.get("parse"), db.get("opts"), db.get("tree"))
    return ka != kb


def report(B, rep, kind, a, b):
    if not native_differs(B, a, b):
        rep.inconclusive.append("counterexample (%s) %r vs %r does not reproduce natively" % (kind, a, b))
        return
    da, db = native_pair(B, a, b)
    rep.violation("spelling:" + kind, "%r and %r should be equivalent: %s vs %s" % (a, b, da.get("tree") or da.get("parse"), db.get("tree") or db.get("parse")),
                  dict(a=a, b=b, native_a=da, native_b=db))


def replay(ctx, path):
    import json
    rp = json.load(open(path))["replay"]
    d = ctx.run_native([rp["a"], rp["b"]], "debug")
    ka = (d[0].get("parse"), d[0].get("opts"), d[0].get("tree"))
    kb = (d[1].get("parse"), d[1].get("opts"), d[1].get("tree"))
    print("a=%r -> %s\nb=%r -> %s" % (rp["a"], ka, rp["b"], kb))
    return 1 if ka != kb else 0
