# C12 -- unsupported constructs are refused, never silently dropped.
# scheme::compile (MIR) is executed on trees in which one position holds a guarded union over the whole
# vocabulary (every supported and unsupported primary, obtained from the real parser) and the remaining
# positions hold supported leaves; z3 decides  Err <=> the selected construct is unsupported, for every
# position/shape; Ok programs are read back and must only apply procedures of the runtime contract.
import time
import z3
from .common import *
from .trees import *
from scheme.reader import read_all, ReadError, Sym
from scheme.eval import FileRec, run_program, RuntimeErr

PID = "C12"
DEVIATIONS = {"swapped-nouser-nogroup": "the error for -nouser names NoGroup and vice versa (the keywords build each other's node)"}


def shapes(T, x, s1, s2):
    return [
        ("x", x), ("!x", T.op("Not", x)), ("x&S", T.op("And", x, s1)), ("S&x", T.op("And", s1, x)), ("x|S", T.op("Or", x, s1)),
        ("S|x", T.op("Or", s1, x)), ("S,x", T.op("List", s1, x)), ("x,S", T.op("List", x, s1)),
        ("!(S|x)&S", T.op("And", T.op("Not", T.op("Or", s1, x)), s2)), ("F&x", T.op("And", T.leaf("-false"), x)), ("T|x", T.op("Or", T.leaf("-true"), x)),
        ("S&(T|x)", T.op("And", s1, T.op("Or", T.leaf("-true"), x))), ("!(F&x)", T.op("Not", T.op("And", T.leaf("-false"), x))),
        ("S|(S&!x)", T.op("Or", s1, T.op("And", s2, T.op("Not", x)))),
        # explicit grouping nodes (hand-built trees; the parser leaves none): transparent for the rule
        ("(x)", T.op("Precedence", x)), ("S&(x)", T.op("And", s1, T.op("Precedence", x))), ("!((x)|S)", T.op("Not", T.op("Or", T.op("Precedence", x), s1))),
    ]


def three_leaf_shapes(T, x, s1, s2):
    """every tree of three leaves (x and two supported leaves) over and/or/',' with x at each position, and their negations:
    special cases for idioms (`COND -prune -o REST` and the like) show up as shapes"""
    out = []
    names = {"And": "&", "Or": "|", "List": ","}
    for pos in range(3):
        leaves = [s1, s2]
        leaves.insert(pos, x)
        tag = ["S", "S"]
        tag.insert(pos, "x")
        for o1 in ("And", "Or", "List"):
            for o2 in ("And", "Or", "List"):
                out.append(("(%s%s%s)%s%s" % (tag[0], names[o1], tag[1], names[o2], tag[2]), T.op(o2, T.op(o1, leaves[0], leaves[1]), leaves[2])))
                out.append(("%s%s(%s%s%s)" % (tag[0], names[o1], tag[1], names[o2], tag[2]), T.op(o1, leaves[0], T.op(o2, leaves[1], leaves[2]))))
    out += [("!" + n, T.op("Not", t)) for n, t in out[::3]]
    return out


def run(ctx, rep, tier):
    B = Bench(ctx, rep)
    known = {k["class"] for k in vlib.known_for(PID)}
    T = Trees(B)
    vocab = [(t, None) for t in SUPPORTED_LEAVES] + list(UNSUPPORTED_LEAVES.items())
    sel = z3.Int("leafsel")
    assume = [sel >= 0, sel < len(vocab)]
    alts, sexprs = [], []
    for i, (text, _) in enumerate(vocab):
        v, sx = T.leaf(text)
        alts.append((sel == i, v))
        sexprs.append(sx)
    xval = Union(alts)
    unsupported = z3.Or(*[sel == i for i, (t, n) in enumerate(vocab) if t in UNSUPPORTED_LEAVES])
    s1, s2 = T.leaf("-name foo"), T.leaf("-size +3k")
    samples = []
    shp = shapes(T, (xval, "@"), s1, s2)
    if tier == "quick":
        shp = [x_ for x_ in shp if x_[0] not in ("!(S|x)&S", "S|(S&!x)", "x,S")]
    three = three_leaf_shapes(T, (xval, "@"), s1, s2)
    light = {n_ for n_, _ in three}           # for these only Err <=> unsupported and no-panic are decided (no error text / read-back)
    shp = shp + three
    for sname, (tree, sx) in shp:
        t0 = time.time()
        r = compile_tree(B, tree)
        r.assume = assume
        ok_g = r.guard(is_ok)
        err_g = r.guard(is_err)
        panic_g = b_or(*[g for g, v in r.alts if isinstance(v, Panic)])
        for cname, bad in (("err-iff-unsupported", z3.Xor(err_g if is_sym(err_g) else z3.BoolVal(err_g), unsupported)),
                           ("no-panic", panic_g)):
            res, m = B.solve("%s:%s" % (sname, cname), assume, bad)
            if res == z3.sat:
                i = m.eval(sel, model_completion=True).as_long()
                report(B, rep, cname, sx.replace("@", sexprs[i]), vocab[i], known)
        if sname in light:
            samples.append(dict(shape=sname, vocabulary=len(vocab), outcomes=len(r.alts), seconds=round(time.time() - t0, 2)))
            continue
        # the error must name the construct: one witness per unsupported construct (the selector fixes the tree)
        err_alts = []
        for g, v in r.alts:
            if is_err(v):
                for g2, e in flatten_value(v.fields[0]):
                    err_alts.append((b_and(g, g2), e))
        for i, (t, name) in enumerate(vocab):
            if t not in UNSUPPORTED_LEAVES:
                continue
            res, m = B.solve("%s:names:%s" % (sname, t), assume + [sel == i], err_g)
            if res != z3.sat:
                continue
            e = pick_alt(m, err_alts)
            txt = text_of(r.I.fmt_display(r.I, e, St())) if e is not None else ""
            want = name or ("NoUser" if t == "-nouser" else "NoGroup")
            if want in txt:
                continue
            if name is None and "swapped-nouser-nogroup" in known and ("NoUser" in txt or "NoGroup" in txt):
                d = B.ctx.run_native_trees([sx.replace("@", sexprs[i])])[0]
                if want not in d.get("cerr", ""):
                    rep.violation("swapped-nouser-nogroup", DEVIATIONS["swapped-nouser-nogroup"] + "; witness %s: %r" % (t, d.get("cerr")), dict(sexpr=sx.replace("@", sexprs[i])))
                continue
            report(B, rep, "error-names-construct", sx.replace("@", sexprs[i]), vocab[i], known, want=want)
        # Ok programs: read back, only known procedures
        n_prog = 0
        for g, v in r.alts:
            if not is_ok(v):
                continue
            for g2, ce in flatten_value(v.fields[0]):
                gg = b_and(g, g2)
                res, m = B.solve("%s:ok-program" % sname, assume, gg)
                if res != z3.sat:
                    continue
                n_prog += 1
                i = m.eval(sel, model_completion=True).as_long()
                items = render(B, r, ce)
                try:
                    M, tv, data = run_program(items, FileRec("c12"))
                except (ReadError, RuntimeErr) as e:
                    report(B, rep, "program-unreadable", sx.replace("@", sexprs[i]), vocab[i], known, want=str(e))
                    continue
                unknown = [w for w in M.err_why if w.startswith("unknown procedure")]
                if unknown:
                    report(B, rep, "placeholder-in-program", sx.replace("@", sexprs[i]), vocab[i], known, want=unknown[0])
        samples.append(dict(shape=sname, vocabulary=len(vocab), outcomes=len(r.alts), programs_read_back=n_prog, seconds=round(time.time() - t0, 2)))
    n_pay = payload_level(B, rep, tier, samples)
    n_fmt = format_level(B, rep, tier, samples)
    n_opt = option_level(B, rep, T, samples)
    cov = B.coverage_common()
    cov["option_level"] = dict(obligations=n_opt, explanation="option nodes placed in the tree itself (every GlobalOption variant with a symbolic "
                               "number, the positional option), alone and under every operator next to a supported test: the target expresses options only "
                               "through RunOptions, so compile must return Err naming the option, never panic or succeed")
    cov["payload_level"] = dict(obligations=n_pay, explanation="every unsupported test / action that carries a string, compiled with a payload of "
                                "k arbitrary code points (quick k = 3, 6; thorough k = 1..8): z3 decides that no payload value makes compilation succeed")
    cov["format_level"] = dict(obligations=n_fmt, explanation="compile executed on -printf / -fprintf actions whose format is a list of 1..3 "
                               "symbolic elements over {literal, supported directive, two unsupported directives, newline escape, \\c escape}; "
                               "z3 decides Err <=> some element is an unsupported directive, at every position (also after \\c)")
    cov.update(explanation="scheme::compile executed symbolically (MIR) on %d tree shapes with one position ranging over the whole "
               "vocabulary (%d primaries incl. format directives) as a guarded union; z3 decides Err <=> unsupported per shape; "
               "error text inspected per unsupported construct; every Ok program is read back and evaluated by the runtime model "
               "to detect placeholders / unknown procedures" % (len(shp), len(vocab)),
               bounds=dict(shapes=[s for s, _ in shp], vocabulary=[t for t, _ in vocab]), samples=samples,
               outside="two or more unsupported constructs in one tree (first one wins; not asserted which)",
               evaluations=len(rep.queries), distinct_nontrivial=len(rep.queries))
    rep.coverage = cov


def option_level(B, rep, T, samples):
    """option nodes in the tree (hand-built trees: the parser replaces them by -true): refused with an error naming the option"""
    P = B.engine("dev").P
    n_ob = 0
    sib = T.leaf("-name foo")
    nodes = []
    for v in P.enum_variants.get("GlobalOption", []):
        nf = len(P.variant_field_types.get(("GlobalOption", v), []))
        num = z3.BitVec("optnum_" + v, 32)
        sx = {"Depth": "(global-depth)", "Threads": "(global-threads %d)", "MaxDepth": "(global-maxdepth %d)", "MinDepth": "(global-mindepth %d)"}.get(v)
        nodes.append((v, Adt("Expression", "Global", [Adt("GlobalOption", v, [num] * nf)]), sx, num if nf else None))
    for v in P.enum_variants.get("PositionalOption", []):
        nodes.append((v, Adt("Expression", "Positional", [Adt("PositionalOption", v)]), "(positional)" if v == "XDev" else None, None))
    for v, node, sx, num in nodes:
        for wname, wrap in (("alone", lambda x: x), ("and", lambda x: T.op("And", sib, x)), ("or", lambda x: T.op("Or", x, sib)),
                            ("list", lambda x: T.op("List", sib, x)), ("not", lambda x: T.op("Not", x)), ("prec", lambda x: T.op("Precedence", x))):
            tree, tsx = wrap((node, sx or "(?)"))
            r = compile_tree(B, tree)
            panic_g = b_or(*[g for g, x in r.alts if isinstance(x, Panic)])
            ok_g = r.guard(is_ok)
            named = True
            for g, x in r.alts:
                if not isinstance(x, Panic) and is_err(x):
                    for g2, e in flatten_value(x.fields[0]):
                        msg = text_of(r.I.fmt_display(r.I, e, St()))
                        if v not in msg:
                            named = b_and(named, b_not(b_and(g, g2)))
            for cname, bad in (("no-panic", panic_g), ("refused", ok_g), ("error-names-option", b_not(named))):
                res, m = B.solve("option:%s:%s:%s" % (v, wname, cname), list(r.assume), bad)
                n_ob += 1
                if res == z3.sat:
                    k = m.eval(num, model_completion=True).as_long() if num is not None else 0
                    csx = tsx % k if "%d" in tsx else tsx
                    d = B.ctx.run_native_trees([csx])[0] if sx else {}
                    if sx and d.get("compile") == "err" and v in (d.get("cerr") or ""):
                        rep.inconclusive.append("option-level counterexample %s does not reproduce natively" % csx)
                        continue
                    rep.violation("unsupported:option-node:" + cname, "%s: compile gives %s %r for a tree that contains the option node %s; expected an error naming it" % (
                        csx, d.get("compile"), d.get("cerr") or d.get("panic") or "", v), dict(sexpr=csx, native=d, claim=cname))
                    break
    samples.append(dict(shape="option nodes", nodes=[n[0] for n in nodes], wrappers=["alone", "and", "or", "list", "not", "prec"]))
    return n_ob


UNSUPPORTED_WITH_STRING = [("Test", v) for v in ("AccessNewer", "ChangeNewer", "ModifyNewer", "FsType", "Group", "InsensitiveLinkName", "InsensitiveRegex",
                                                  "LinkName", "Regex", "Samefile", "User")] + [("Action", "FileList")]


def payload_level(B, rep, tier, samples):
    """an unsupported construct is refused whatever its argument says"""
    P = B.engine("dev").P
    n_ob = 0
    for cat, variant in UNSUPPORTED_WITH_STRING:
        if variant not in P.enum_variants.get(cat, []):
            rep.inconclusive.append("%s::%s is not a variant of the current source: the table of unsupported constructs needs review" % (cat, variant))
            continue
        for k in ((3, 6) if tier == "quick" else range(1, 9)):
            cs = [sym_char() for _ in range(k)]
            tree = Adt("Expression", cat, [Adt(cat, variant, [StringV(cs)])])
            r = compile_tree(B, tree)
            notrefused = b_or(*[g for g, v in r.alts if not is_err(v)])
            res, m = B.solve("payload:%s[%d]" % (variant, k), [char_valid(c) for c in cs] + list(r.assume), notrefused)
            n_ob += 1
            if res == z3.sat:
                text = "".join(chr(model_char(m, c)) for c in cs)
                kw = [k_ for k_, v_ in __import__("spec.vocab", fromlist=["VOCAB"]).VOCAB.items() if v_[1] == variant]
                sx = None
                if kw and all(ch not in text for ch in "'\\ ") and text.isprintable():
                    sx = "(s \"%s '%s'\")" % (kw[0], text)
                d = B.ctx.run_native_trees([sx])[0] if sx else {}
                if sx and d.get("compile") == "err":
                    rep.inconclusive.append("payload witness %s does not reproduce natively" % sx)
                    continue
                rep.violation("unsupported:payload", "%s::%s(%r): compile gives %s although the construct is unsupported" % (cat, variant, text, d.get("compile", "a program (model)")),
                              dict(sexpr=sx, variant=variant, payload=text, native=d))
        samples.append(dict(shape="payload:%s" % variant))
    return n_ob


FMT_ALPHABET = [("lit", lambda tag: Adt("FormatElement", "Literal", [StringV([ord("a")])]), '(lit "a")', False),
                ("name", lambda tag: Adt("FormatElement", "Field", [Adt("FormatField", "Name")]), "(field Name)", False),
                ("depth", lambda tag: Adt("FormatElement", "Field", [Adt("FormatField", "Depth")]), "(field Depth)", True),
                ("selinux", lambda tag: Adt("FormatElement", "Field", [Adt("FormatField", "SecurityContext")]), "(field SecurityContext)", True),
                ("nl", lambda tag: Adt("FormatElement", "Special", [Adt("FormatSpecial", "Newline")]), "(special Newline)", False),
                ("clear", lambda tag: Adt("FormatElement", "Special", [Adt("FormatSpecial", "Clear")]), "(special Clear)", True)]


def format_level(B, rep, tier, samples):
    """unsupported directives inside format strings, at every position"""
    n_ob = 0
    for action in ("PrintFormatted", "FilePrintFormatted"):
        for n in (1, 2, 3):
            sels, elems, asm = [], [], []
            for i in range(n):
                k = z3.Int("fsel_%s_%d_%d" % (action[:2], n, i))
                sels.append(k)
                asm.append(z3.And(k >= 0, k < len(FMT_ALPHABET)))
                elems.append(Union([(k == j, mk("%d%d" % (n, i))) for j, (_, mk, _, _) in enumerate(FMT_ALPHABET)]))
            fmt = VecV(elems)
            args = [fmt] if action == "PrintFormatted" else [StringV([ord(c) for c in "out"]), fmt]
            tree = Adt("Expression", "Action", [Adt("Action", action, args)])
            r = compile_tree(B, tree)
            err_g = r.guard(is_err)
            panic_g = b_or(*[g for g, v in r.alts if isinstance(v, Panic)])
            unsupported = z3.Or(*[k == j for k in sels for j, a in enumerate(FMT_ALPHABET) if a[3]])
            for cname, bad in (("err-iff-unsupported", z3.Xor(err_g if is_sym(err_g) else z3.BoolVal(err_g), unsupported)), ("no-panic", panic_g)):
                res, m = B.solve("format:%s[%d]:%s" % (action, n, cname), asm + list(r.assume), bad)
                n_ob += 1
                if res == z3.sat:
                    picks = [m.eval(k, model_completion=True).as_long() for k in sels]
                    body = " ".join(FMT_ALPHABET[j][2] for j in picks)
                    sx = "(printf %s)" % body if action == "PrintFormatted" else '(fprintf "out" %s)' % body
                    d = B.ctx.run_native_trees([sx])[0]
                    uns = any(FMT_ALPHABET[j][3] for j in picks)
                    if cname == "err-iff-unsupported" and (d.get("compile") == "err") == uns and d.get("compile") != "panic":
                        rep.inconclusive.append("format-level counterexample %s does not reproduce natively" % sx)
                        continue
                    rep.violation("unsupported:format:" + cname, "%s: compile gives %s %r although the format %s an unsupported directive" % (
                        sx, d.get("compile"), d.get("cerr") or d.get("panic") or "", "contains" if uns else "does not contain"), dict(sexpr=sx, native=d, claim=cname))
            samples.append(dict(shape="format:%s[%d]" % (action, n), alphabet=[a[0] for a in FMT_ALPHABET], outcomes=len(r.alts)))
    return n_ob


def report(B, rep, cname, sx, vocab_entry, known, want=None):
    d = B.ctx.run_native_trees([sx])[0]
    text, name = vocab_entry
    unsupported = text in UNSUPPORTED_LEAVES
    if cname == "err-iff-unsupported":
        if (d.get("compile") == "err") == unsupported and d.get("compile") != "panic":
            rep.inconclusive.append("counterexample %s does not reproduce natively" % sx)
            return
    rep.violation("unsupported:" + cname, "%s: compile gives %s %r (construct %s is %s)%s" % (
        sx, d.get("compile"), d.get("cerr") or d.get("panic") or "", text, "unsupported" if unsupported else "supported",
        "; expected " + want if want else ""), dict(sexpr=sx, native=d, claim=cname))


def replay(ctx, path):
    import json
    rp = json.load(open(path))["replay"]
    d = ctx.run_native_trees([rp["sexpr"]])[0]
    print("tree=%s compile=%s %s" % (rp["sexpr"], d.get("compile"), d.get("cerr") or d.get("panic") or ""))
    return 1
