# C19 -- tree query helpers agree with the tree.
# Engine M: Expression::action / complex_frames are executed symbolically (MIR) on
#   * every operator variant over OPAQUE children (recursive calls on opaque subtrees return the
#     induction hypothesis) -> one inductive step covers every depth and shape,
#   * every leaf variant (payloads symbolic), format lists of length 0..3 with symbolic last element;
# Size::mult / byte_size / TimeSpec::secs on every unit with a symbolic 64-bit count, both MIR profiles.
# Engine K (Kani): the same unit obligations and all leaf kinds on the compiled crate.
import time
import z3
from .common import *

PID = "C19"

FILE_WRITERS = {"FileList", "FilePrint", "FilePrintNull", "FilePrintFormatted"}
NUL_TERMINATED = {"PrintNull", "FilePrintNull"}
SIZE_UNITS = {"Byte": 1, "Word": 2, "Block": 512, "KiloByte": 1 << 10, "MegaByte": 1 << 20, "GigaByte": 1 << 30, "TeraByte": 1 << 40}
TIME_UNITS = {"Second": 1, "Minute": 60, "Hour": 3600, "Day": 86400}


class OpaqueExp:
    """an arbitrary subtree, known only through the induction hypothesis"""
    def __init__(self, name):
        self.name = name
        self.act = z3.Bool("act_" + name)
        self.cf = z3.Bool("cf_" + name)

    def __repr__(self):
        return "<subtree %s>" % self.name


def op(variant, *kids):
    return Adt("Expression", "Operator", [BoxV(Adt("Operator", variant, list(kids)), "Rc")])


def opaque_str(name):
    return StringV([z3.BitVec("%s_%d" % (name, i), 32) for i in range(2)])


def fmt_elem_union(tag, P=None):
    """a symbolic format element: Literal / a Field / any Special variant of the current source (index 3 is the newline escape)"""
    k = z3.Int("fe_" + tag)
    elems = [Adt("FormatElement", "Literal", [opaque_str("lit" + tag)]),
             Adt("FormatElement", "Field", [Adt("FormatField", "Name")]),
             Adt("FormatElement", "Field", [Adt("FormatField", "Percent")]),
             Adt("FormatElement", "Special", [Adt("FormatSpecial", "Newline")])]
    specials = list(P.enum_variants.get("FormatSpecial", [])) if P is not None else ["TabHorizontal", "Null", "Ascii"]
    for v in specials:
        if v == "Newline":
            continue
        nf = len(P.variant_field_types.get(("FormatSpecial", v), [])) if P is not None else (1 if v == "Ascii" else 0)
        elems.append(Adt("FormatElement", "Special", [Adt("FormatSpecial", v, [z3.BitVec("asc%s_%d" % (tag, i), 16) for i in range(nf)])]))
    return Union([(k == i, e) for i, e in enumerate(elems)]), k, [z3.And(k >= 0, k <= len(elems) - 1)]


def helper_run(B, fname, tree, assume, profile="dev"):
    E = B.engine(profile)
    I = E.fresh()
    I.assumptions = list(assume)

    def hook_for(attr):
        def hk(I, args, st):
            a = args[0]
            while isinstance(a, ValRef):
                a = a.v
            if isinstance(a, OpaqueExp):
                return getattr(a, attr)
            return None
        return hk
    for nm, attr in (("Expression::action", "act"), ("Expression::complex_frames", "cf")):
        f, _ = E._resolve(nm, {})
        I.fn_hooks[f.name] = hook_for(attr)
    f, env = E._resolve(fname, {})
    try:
        outs = I.call_fn(f, [ValRef(tree)], St(), env)
    except Unsupported as e:
        raise Inconclusive("unsupported construct while encoding %s: %s" % (fname, e))
    B.fn_seen |= I.stats["fns"]
    B.intr_seen |= I.stats["intrinsics"]
    val = False
    panic = False
    for s, v in outs:
        g = b_and(*s.pc)
        if isinstance(v, Panic):
            panic = b_or(panic, g)
        else:
            for g2, x in alts_of(v):
                val = b_or(val, b_and(g, g2, x))
    return val, panic


def small_trees(B, rep, max_leaves):
    nl = Adt("FormatElement", "Special", [Adt("FormatSpecial", "Newline")])
    nm = Adt("FormatElement", "Field", [Adt("FormatField", "Name")])
    leaves = [  # (sexpr, value, is action, needs framing)
        ('(s "-true")', Adt("Expression", "Test", [Adt("Test", "True")]), False, False),
        ('(s "-print")', Adt("Expression", "Action", [Adt("Action", "Print")]), True, False),
        ('(s "-print0")', Adt("Expression", "Action", [Adt("Action", "PrintNull")]), True, True),
        ('(s "-fprint out")', Adt("Expression", "Action", [Adt("Action", "FilePrint", [StringV.of("out")])]), True, True),
        ("(printf (field Name) (special Newline))", Adt("Expression", "Action", [Adt("Action", "PrintFormatted", [VecV([nm, nl])])]), True, False),
        ("(printf (special Newline) (field Name))", Adt("Expression", "Action", [Adt("Action", "PrintFormatted", [VecV([nl, nm])])]), True, True),
        ('(s "-quit")', Adt("Expression", "Action", [Adt("Action", "Quit")]), True, False),
    ]
    by_n = {1: leaves}
    allt = list(leaves)
    for n in range(2, max_leaves + 1):
        cur = []
        for k in range(1, n):
            for a_ in by_n[k]:
                for b_ in by_n[n - k]:
                    for v, nm_ in (("And", "and"), ("Or", "or"), ("List", "list")):
                        cur.append(("(%s %s %s)" % (nm_, a_[0], b_[0]), op(v, a_[1], b_[1]), a_[2] or b_[2], a_[3] or b_[3]))
        by_n[n] = cur
        allt += cur
    allt += [("(not %s)" % t[0], op("Not", t[1]), t[2], t[3]) for t in allt if t[0].count("(s ") + t[0].count("(printf") < max_leaves]
    E = B.engine("dev")
    n = 0
    for sx, tree, want_act, want_cf in allt:
        for fname, want, key in (("Expression::action", want_act, "action"), ("Expression::complex_frames", want_cf, "complex")):
            f, env = E._resolve(fname, {})
            I = E.fresh()
            try:
                outs = I.call_fn(f, [ValRef(tree)], St(), env)
            except Unsupported as e:
                raise Inconclusive("unsupported construct while encoding %s: %s" % (fname, e))
            n += 1
            got = None
            if len(outs) == 1 and not isinstance(outs[0][1], Panic) and isinstance(outs[0][1], bool):
                got = outs[0][1]
            if got is not want:
                d = B.ctx.run_native_trees([sx])[0]
                if d.get(key) == str(want).lower():
                    rep.inconclusive.append("small tree %s: model %s, native build agrees with the rule" % (sx, got))
                else:
                    rep.violation("helper:%s:small-tree" % key, "%s on %s: native %s, the rule says %s" % (key, sx, d.get(key), str(want).lower()),
                                  dict(sexpr=sx, helper=fname.split("::")[-1], expected=str(want).lower(), native=d))
    B.fn_seen |= I.stats["fns"]
    rep.query("small-trees", "unsat", 0.0, trees=len(allt))
    return len(allt)


def zb(x):
    return z3.BoolVal(x) if isinstance(x, bool) else x


def run(ctx, rep, tier):
    B = Bench(ctx, rep)
    P = B.engine("dev").P
    samples = []
    cases = []         # (label, tree, spec_action, spec_complex | None, assumptions, sexpr builder or None)
    a, b = OpaqueExp("a"), OpaqueExp("b")
    hyp = [z3.Implies(a.cf, a.act), z3.Implies(b.cf, b.act)]
    # operator nodes over opaque children (inductive step)
    for v in P.enum_variants.get("Operator", []):
        if v in ("Not", "Precedence"):
            cases.append(("op:" + v, op(v, a), a.act, a.cf, hyp))
        elif v in ("And", "Or", "List"):
            cases.append(("op:" + v, op(v, a, b), z3.Or(a.act, b.act), z3.Or(a.cf, b.cf), hyp))
        else:
            rep.inconclusive.append("unknown Operator variant %s: specification table needs review" % v)
    # leaves: every Test variant (never an action, never framed)
    for v in P.enum_variants.get("Test", []):
        nf = len(P.variant_field_types.get(("Test", v), []))
        cases.append(("test:" + v, Adt("Expression", "Test", [Adt("Test", v, [Opaque("payload")] * nf)]), False, False, []))
    for v, payload in (("Global", Adt("GlobalOption", "Depth")), ("Global", Adt("GlobalOption", "Threads", [z3.BitVec("thr", 32)])),
                       ("Positional", Adt("PositionalOption", "XDev"))):
        cases.append(("leaf:" + v, Adt("Expression", v, [payload]), False, False, []))
    # actions
    for v in P.enum_variants.get("Action", []):
        fts = P.variant_field_types.get(("Action", v), [])
        if v in ("PrintFormatted", "FilePrintFormatted"):
            for n in (0, 1, 2, 3):
                elems, ass = [], []
                lastk = None
                for i in range(n):
                    e, k, asm = fmt_elem_union("%s%d_%d" % (v[:2], n, i), P)
                    elems.append(e)
                    ass += asm
                    lastk = k
                fmt = VecV(elems)
                args = [fmt] if v == "PrintFormatted" else [opaque_str("file"), fmt]
                spec_cf = True if v == "FilePrintFormatted" else ((lastk != 3) if n else False)
                cases.append(("action:%s[%d]" % (v, n), Adt("Expression", "Action", [Adt("Action", v, args)]), True, spec_cf, ass))
            continue
        args = [opaque_str("f%d" % i) if "String" in t else Opaque("payload") for i, t in enumerate(fts)]
        cases.append(("action:" + v, Adt("Expression", "Action", [Adt("Action", v, args)]), True,
                      (v in FILE_WRITERS) or (v in NUL_TERMINATED), []))
    known_actions = {"FileList", "FilePrint", "FilePrintNull", "FilePrintFormatted", "List", "Print", "PrintNull", "PrintFormatted",
                     "PrintFid", "Prune", "Quit", "DefaultPrint"}
    extra = set(P.enum_variants.get("Action", [])) - known_actions
    if extra:
        rep.inconclusive.append("Action variants without a specification entry: %s" % sorted(extra))
    n_ob = 0
    inductive_na = []
    for label, tree, sa, sc, assume in cases:
        for fname, specv in (("Expression::action", sa), ("Expression::complex_frames", sc)):
            if specv is None:
                continue
            try:
                val, panic = helper_run(B, fname, tree, assume)
            except Inconclusive as e:
                if label.startswith("op:") and "subtree" in str(e):
                    # the helper inspects its operand instead of calling itself on it (e.g. an explicit work list): the inductive
                    # step over opaque subtrees does not apply to that code; the claim for it is the bounded one (small trees)
                    inductive_na.append("%s:%s" % (label, fname.split("::")[-1]))
                    continue
                raise
            bad = b_or(panic, z3.Xor(zb(val), zb(specv)) if is_sym(val) or is_sym(specv) else (val != specv))
            res, m = B.solve("%s:%s" % (label, fname.split("::")[-1]), assume, bad)
            n_ob += 1
            if res == z3.sat:
                got = eval_guard(m, val) if not eval_guard(m, panic) else "panic"
                want = eval_guard(m, zb(specv))
                report_tree(B, rep, label, fname, tree, m, got, want)
    samples.append(dict(kind="tree helpers", obligations=n_ob, cases=[c[0] for c in cases][:12], inductive_step_not_applicable=inductive_na))
    # ---- every concrete tree of up to 3 leaves over representative leaves: does not rely on the helpers being recursive (an
    # iterative rewrite with a work list is executed like any other code); the rule is evaluated by structural recursion here
    n_small = small_trees(B, rep, 3 if tier == "quick" else 4)
    samples.append(dict(kind="small trees", trees=n_small))
    # ---- unit helpers, both profiles
    for profile in ("dev", "rel"):
        for v, unit in SIZE_UNITS.items():
            n = z3.BitVec("n_%s_%s" % (v, profile), 64)
            r = B.call("ast::Size::mult", [ValRef(Adt("Size", v, [n]))], profile=profile)
            bad = b_or(*[g for g, x in r.alts if isinstance(x, Panic) or not same_int(x, unit)])
            res, m = B.solve("%s:mult:%s" % (profile, v), [], bad)
            if res == z3.sat:
                rep.violation("unit:Size::mult", "Size::%s.mult() is not %d (%s)" % (v, unit, profile), dict(variant=v, profile=profile))
            r = B.call("ast::Size::byte_size", [ValRef(Adt("Size", v, [n]))], profile=profile)
            fits = z3.ULE(z3.ZeroExt(64, n) * z3.BitVecVal(unit, 128), z3.BitVecVal((1 << 64) - 1, 128))
            wrong = False
            for g, x in r.alts:
                if isinstance(x, Panic):
                    wrong = b_or(wrong, g)
                else:
                    wrong = b_or(wrong, b_and(g, b_not(B.engine(profile).I.sym_eq(x, n * z3.BitVecVal(unit, 64)))))
            res, m = B.solve("%s:byte_size-when-fits:%s" % (profile, v), [fits], wrong)
            if res == z3.sat:
                cnt = m.eval(n, model_completion=True).as_long()
                rep.violation("unit:Size::byte_size", "Size::%s(%d).byte_size() is not count*unit although it fits (%s)" % (v, cnt, profile),
                              dict(variant=v, count=cnt, profile=profile))
        for v, unit in TIME_UNITS.items():
            n = z3.BitVec("t_%s_%s" % (v, profile), 64)
            r = B.call("ast::TimeSpec::secs", [ValRef(Adt("TimeSpec", v, [n]))], profile=profile)
            bad = b_or(*[g for g, x in r.alts if isinstance(x, Panic) or not same_int(x, unit)])
            res, m = B.solve("%s:secs:%s" % (profile, v), [], bad)
            if res == z3.sat:
                rep.violation("unit:TimeSpec::secs", "TimeSpec::%s.secs() is not %d (%s)" % (v, unit, profile), dict(variant=v, profile=profile))
    for en, table in (("Size", SIZE_UNITS), ("TimeSpec", TIME_UNITS)):
        if set(P.enum_variants.get(en, [])) != set(table):
            rep.inconclusive.append("%s variants %s differ from the specification table" % (en, P.enum_variants.get(en)))
    samples.append(dict(kind="unit helpers", units=list(SIZE_UNITS) + list(TIME_UNITS), profiles=["dev", "rel"]))
    # ---- Engine K
    kani = [] if os.environ.get("VERIF_SKIP_KANI") else ["c19_size_units", "c19_time_units", "c19_byte_size_fits", "c19_leaf_helpers"]
    if tier == "thorough":
        kani.append("c19_tree_depth1")
    ctx.kani_prepare([("verif_kani_pub.rs", "src/lib.rs", "verif_kani_pub")])
    res = ctx.kani_run(kani, timeout=600 if tier == "quick" else 2400, jobs=5)
    for h, r in res.items():
        rep.query("kani:" + h, r["status"], r["seconds"])
        if r["status"] == "FAILED":
            fc = [l.strip() for l in r["log"].splitlines() if "Failed Checks" in l]
            rep.violation("kani:" + h, "Kani harness %s failed: %s" % (h, "; ".join(fc)[:300]), dict(harness=h, failed=fc))
        elif r["status"] != "SUCCESS":
            rep.inconclusive.append("Kani harness %s: %s" % (h, r["status"]))
    samples.append(dict(kind="kani", harnesses={h: (r["status"], r["seconds"]) for h, r in res.items()}))
    cov = B.coverage_common()
    cov.update(explanation="inductive step over opaque subtrees for every Operator variant + every leaf variant of Test/Action/"
               "Global/Positional (enumerated from the current source) decided by z3 on the MIR of action()/complex_frames(); unit "
               "helpers for every unit with a symbolic u64 count in both MIR profiles; Kani harnesses on the compiled crate",
               bounds=dict(depth="unbounded (induction over operator nodes)", format_list_len="0..3 (every element symbolic over literal, two fields and every FormatSpecial variant)",
                           count="any u64"),
               outside="format lists longer than 3",
               samples=samples, evaluations=len(rep.queries), distinct_nontrivial=len(rep.queries))
    rep.coverage = cov
    rep.assumptions = ["induction hypothesis: helper values of subtrees are arbitrary booleans with complex_frames => action",
                       "Rc/Box transparent; derived Clone structural"]


def same_int(x, k):
    if isinstance(x, int):
        return x == k
    if z3.is_bv_value(x):
        return x.as_long() == k
    s = z3.simplify(x)
    return z3.is_bv_value(s) and s.as_long() == k


def sexpr_of(tree, m):
    """concrete s-expression for the native driver, instantiating opaque subtrees by leaves with the model's helper values"""
    if isinstance(tree, OpaqueExp):
        act, cf = eval_guard(m, tree.act), eval_guard(m, tree.cf)
        return '(s "-print0")' if cf else '(s "-print")' if act else '(s "-true")'
    if isinstance(tree, Adt) and tree.variant == "Operator":
        o = tree.fields[0].v
        name = {"And": "and", "Or": "or", "List": "list", "Not": "not", "Precedence": "prec"}[o.variant]
        return "(%s %s)" % (name, " ".join(sexpr_of(k, m) for k in o.fields))
    if isinstance(tree, Adt) and tree.variant == "Action" and tree.fields[0].variant in ("PrintFormatted", "FilePrintFormatted"):
        act = tree.fields[0]
        fmt = act.fields[-1]
        parts = []
        for e in fmt.items:
            pick = [x for g, x in alts_of(e) if eval_guard(m, g)]
            if len(pick) != 1:
                return None
            x = pick[0]
            inner = x.fields[0]
            if x.variant == "Literal":
                parts.append('(lit "ab")')
            elif x.variant == "Field":
                parts.append("(field %s)" % inner.variant)
            elif inner.variant == "Ascii":
                parts.append("(special Ascii %d)" % m.eval(inner.fields[0], model_completion=True).as_long())
            else:
                parts.append("(special %s)" % inner.variant)
        if act.variant == "PrintFormatted":
            return "(printf %s)" % " ".join(parts)
        return '(fprintf "out" %s)' % " ".join(parts)
    return None


def report_tree(B, rep, label, fname, tree, m, got, want):
    sx = sexpr_of(tree, m)
    helper = fname.split("::")[-1]
    if sx is not None:
        d = B.ctx.run_native_trees([sx])[0]
        nat = d.get("action" if helper == "action" else "complex")
        if nat == str(want).lower():
            rep.inconclusive.append("counterexample for %s %s does not reproduce natively" % (label, helper))
            return
        rep.violation("helper:%s:%s" % (helper, label), "%s on %s: native %s, specification %s" % (helper, sx, nat, want),
                      dict(sexpr=sx, helper=helper, expected=str(want).lower(), native=d))
    else:
        rep.violation("helper:%s:%s" % (helper, label), "%s on leaf %s: model %s, specification %s" % (helper, label, got, want),
                      dict(leaf=label, helper=helper, expected=str(want).lower()))


def replay(ctx, path):
    import json
    rp = json.load(open(path))["replay"]
    if "sexpr" in rp:
        d = ctx.run_native_trees([rp["sexpr"]])[0]
        nat = d.get("action" if rp["helper"] == "action" else "complex")
        print("tree=%s %s: native=%s expected=%s" % (rp["sexpr"], rp["helper"], nat, rp["expected"]))
        return 1 if nat != rp["expected"] else 0
    print("replay record:", rp)
    return 1
