# C01 -- operator grammar: precedence, associativity, grouping, exact acceptance.
# (a) token level: precedence::parser is executed symbolically (from MIR, winnow modelled) on a token
#     slice of concrete length n whose elements are symbolic (9 kinds); z3 proves
#     "Ok(tree) with all input consumed  <=>  LIST(0,n)  and  tree = T_LIST(0,n)" against CYK tables.
# (b) string level: parse(&str) on n slot-aligned words with symbolically selected spellings.
import time
import z3
from .common import *
from spec import grammarspec as G
from mirsym.winnow import P
from mirsym.interp import Unsupported

PID = "C01"
Exp = G.Exp


def tok_value(kind_name):
    if kind_name in ("LParen", "RParen", "Not", "Comma", "And", "Or"):
        return Adt("Token", kind_name)
    if kind_name == "True":
        return Adt("Token", "Test", [Adt("Test", "True")])
    if kind_name == "False":
        return Adt("Token", "Test", [Adt("Test", "False")])
    return Adt("Token", "Action", [Adt("Action", "Print")])


def tree_to_z3(v, memo):
    """Expression value (Adt / Union) -> z3 Exp term"""
    k = id(v)
    if k in memo:
        return memo[k][1]
    if isinstance(v, Union):
        alts = v.alts
        t = tree_to_z3(alts[-1][1], memo)
        for g, x in reversed(alts[:-1]):
            t = z3.If(g, tree_to_z3(x, memo), t) if g is not True else tree_to_z3(x, memo)
    elif isinstance(v, BoxV) or isinstance(v, ValRef):
        t = tree_to_z3(v.v, memo)
    elif isinstance(v, Adt) and v.ty == "Expression":
        if v.variant == "Operator":
            t = tree_to_z3(v.fields[0], memo)
        elif v.variant == "Test":
            t = leaf_of(v.fields[0], {"True": "True", "False": "False"})
        elif v.variant == "Action":
            t = leaf_of(v.fields[0], {"Print": "Print"})
        else:
            t = Exp.leaf(-2)
    elif isinstance(v, Adt) and v.ty == "Operator":
        f = [tree_to_z3(x, memo) for x in v.fields]
        t = {"Not": Exp.not_, "And": Exp.and_, "Or": Exp.or_, "List": Exp.list_}.get(v.variant, lambda *a: Exp.leaf(-3))(*f)
    else:
        raise Inconclusive("unexpected tree value %r" % (v,))
    memo[k] = (v, t)
    return t


def leaf_of(v, table):
    if isinstance(v, Union):
        t = leaf_of(v.alts[-1][1], table)
        for g, x in reversed(v.alts[:-1]):
            t = z3.If(g, leaf_of(x, table), t)
        return t
    name = table.get(v.variant)
    return Exp.leaf(G.K[name]) if name else Exp.leaf(-4)


def exp_to_text(m, t):
    """evaluate a z3 Exp term under a model and render it"""
    v = m.eval(t, model_completion=True)

    def r(e):
        d = e.decl().name()
        if d == "leaf":
            k = e.arg(0).as_long()
            return {G.K["True"]: "-true", G.K["False"]: "-false", G.K["Print"]: "-print"}.get(k, "?%d" % k)
        if d == "not_":
            return "Not(%s)" % r(e.arg(0))
        return "%s(%s, %s)" % (d.rstrip("_").capitalize(), r(e.arg(0)), r(e.arg(1)))
    return r(v)


SPELL = {"LParen": "(", "RParen": ")", "Not": "!", "Comma": ",", "And": "-a", "Or": "-o", "True": "-true", "False": "-false", "Print": "-print"}


def native_tree_text(d):
    """normalise the native Debug rendering of a tree to the same notation as exp_to_text"""
    if d.get("parse") != "ok":
        return d.get("parse")
    t = re.sub(r"\s+", "", d["tree"])
    t = t.replace("Test(True)", "-true").replace("Test(False)", "-false").replace("Action(Print)", "-print")
    t = re.sub(r",\)", ")", t)
    t = t.replace(",", ", ")
    return t


def token_level(B, rep, n, samples):
    ks = [z3.Int("k%d_%d" % (n, i)) for i in range(n)]
    assume = [z3.And(k >= 0, k < len(G.KINDS)) for k in ks]
    toks = []
    for k in ks:
        toks.append(Union([(k == i, tok_value(name)) for i, name in enumerate(G.KINDS)]))
    E = B.engine("dev")
    I = E.fresh()
    I.assumptions = list(assume)
    stream = SliceV(toks)
    t0 = time.time()
    try:
        outs = I.winnow.run(FnItem("find_parser::precedence::parser"), stream, St())
    except Unsupported as e:
        raise Inconclusive("unsupported construct while encoding precedence::parser (n=%d): %s" % (n, e))
    B.fn_seen |= I.stats["fns"]
    B.intr_seen |= I.stats["intrinsics"]
    t_sym = time.time() - t0
    D, T, excl = G.tables(ks)
    memo = {}
    ok_full = False        # impl returns Ok having consumed everything
    ok_partial = False     # impl returns Ok but input is left over (a prefix was accepted)
    impl_tree = G.DUMMY
    panic = False
    for g, o in outs:
        if o[0] == "ok":
            if len(o[2]) == 0:
                ok_full = b_or(ok_full, g)
                impl_tree = z3.If(g, tree_to_z3(o[1], memo), impl_tree) if g is not True else tree_to_z3(o[1], memo)
            else:
                ok_partial = b_or(ok_partial, g)
        elif o[0] == "panic":
            panic = b_or(panic, g)
    spec_ok = D["LIST"][(0, n)]
    spec_tree = T["LIST"][(0, n)]
    # oracle sanity: derivations are unique (the grammar is unambiguous)
    r0, _ = B.solve("n%d:oracle-unambiguous" % n, assume, z3.Or(*excl) if excl else False)
    if r0 != z3.unsat:
        rep.inconclusive.append("oracle tables ambiguous at n=%d" % n)
    # reachability twins
    r1, _ = B.solve("n%d:reach-accept" % n, assume, ok_full)
    r2, _ = B.solve("n%d:reach-reject" % n, assume, b_not(b_or(ok_full, ok_partial))) if n > 0 else (z3.sat, None)
    if r1 != z3.sat and n not in (2,):
        # (n=2 has sentences too: "! x", "x x")
        rep.inconclusive.append("no accepted sentence of length %d reachable (vacuous)" % n)
    claims = [
        ("accept-iff-sentence", z3.Xor(b2z(ok_full), spec_ok)),
        ("no-prefix-result", b2z(ok_partial)),
        ("tree-is-the-grammar-tree", z3.And(b2z(ok_full), spec_ok, impl_tree != spec_tree)),
        ("no-panic", b2z(panic)),
    ]
    for cname, bad in claims:
        res, m = B.solve("n%d:%s" % (n, cname), assume, bad)
        if res == z3.sat:
            kinds = [G.KINDS[m.eval(k, model_completion=True).as_long()] for k in ks]
            text = " ".join(SPELL[x] for x in kinds)
            d, r = B.native_all([text])[0]
            spec_accepts = z3.is_true(m.eval(spec_ok, model_completion=True))
            want = exp_to_text(m, spec_tree) if spec_accepts else "err"
            got = native_tree_text(d)
            if got == want:
                rep.inconclusive.append("counterexample %r (%s) does not reproduce natively" % (text, cname))
            else:
                rep.violation("grammar:" + cname, "%r: native %s, grammar says %s" % (text, got, want),
                              dict(input=text, native_debug=d, native_release=r, expected=want))
    samples.append(dict(level="tokens", n=n, sequences=len(G.KINDS) ** n, symbolic_execution_s=round(t_sym, 2),
                        parser_outcomes=len(outs)))


WORDS = [("(", "LParen"), (")", "RParen"), ("!", "Not"), (",", "Comma"), ("-a", "And"), ("-and", "And"), ("-o", "Or"), ("-or", "Or"),
         ("-true", "True"), ("-false", "False"), ("-print", "Print")]


def string_level(B, rep, n, samples):
    """(b) the public parse(&str): n slot-aligned words, each slot a symbolically selected spelling padded with blanks"""
    width = max(len(w) for w, _ in WORDS) + 1
    sels = [z3.Int("w%d_%d" % (n, i)) for i in range(n)]
    assume = [z3.And(s_ >= 0, s_ < len(WORDS)) for s_ in sels]
    spec = []
    for s_ in sels:
        for j in range(width):
            t = z3.BitVecVal(32, 32)
            for k, (w, _) in reversed(list(enumerate(WORDS))):
                t = z3.If(s_ == k, z3.BitVecVal(ord(w[j]) if j < len(w) else 32, 32), t)
            spec.append(t)
    # token kinds as seen by the grammar
    ks = []
    for s_ in sels:
        kt = z3.IntVal(0)
        for k, (_, kind) in reversed(list(enumerate(WORDS))):
            kt = z3.If(s_ == k, z3.IntVal(G.K[kind]), kt)
        ks.append(kt)
    t0 = time.time()
    r = B.parse(spec, extra_assume=assume)
    D, T, excl = G.tables(ks)
    memo = {}
    ok_g, panic = False, False
    impl_tree = G.DUMMY
    for g, v in r.alts:
        if isinstance(v, Panic):
            panic = b_or(panic, g)
        elif is_ok(v):
            ok_g = b_or(ok_g, g)
            impl_tree = z3.If(g, tree_to_z3(v.fields[0][1], memo), impl_tree) if g is not True else tree_to_z3(v.fields[0][1], memo)
    spec_ok, spec_tree = D["LIST"][(0, n)], T["LIST"][(0, n)]
    for cname, bad in (("accept-iff-sentence", z3.Xor(b2z(ok_g), spec_ok)), ("tree-is-the-grammar-tree", z3.And(b2z(ok_g), spec_ok, impl_tree != spec_tree)),
                       ("no-panic", b2z(panic))):
        res, m = B.solve("str%d:%s" % (n, cname), r.assume, bad)
        if res == z3.sat:
            text = model_string(m, spec)
            d, rr = B.native_all([text])[0]
            want = exp_to_text(m, spec_tree) if z3.is_true(m.eval(spec_ok, model_completion=True)) else "err"
            got = native_tree_text(d)
            if got == want:
                rep.inconclusive.append("counterexample %r (%s) does not reproduce natively" % (text, cname))
            else:
                rep.violation("grammar:string:" + cname, "%r: native %s, grammar says %s" % (re.sub(r" +", " ", text).strip(), got, want),
                              dict(input=text, native_debug=d, expected=want))
    samples.append(dict(level="strings", n=n, sequences=len(WORDS) ** n, symbolic_execution_s=round(time.time() - t0, 2), outcomes=len(r.alts)))


def value_to_text(v):
    """tree value of Engine M -> the notation of exp_to_text / native_tree_text"""
    while isinstance(v, (BoxV, ValRef)):
        v = v.v
    if v.ty == "Expression":
        if v.variant == "Operator":
            return value_to_text(v.fields[0])
        inner = v.fields[0]
        return {"True": "-true", "False": "-false", "Print": "-print"}.get(inner.variant, inner.variant)
    if v.ty == "Operator":
        return "%s(%s)" % (v.variant, ", ".join(value_to_text(x) for x in v.fields))
    return repr(v)


def long_chains(B, rep, tier, samples):
    """(c) chains far longer than the symbolic bound: k operands joined by one connector must come back as the whole
    left-nested chain (no prefix, no rejection); concrete inputs executed by Engine M and replayed natively"""
    import sys
    sys.setrecursionlimit(max(sys.getrecursionlimit(), 20000))
    ops = ["-true", "-false", "-print"]
    n_ob = 0
    for k in ((33, 65) if tier == "quick" else (33, 64, 65, 129, 257)):
        for conn, name in (("", "And"), ("-a", "And"), ("-o", "Or"), (",", "List")):
            words = [ops[i % 3] for i in range(k)]
            text = (" %s " % conn if conn else " ").join(words)
            want = words[0]
            for w in words[1:]:
                want = "%s(%s, %s)" % (name, want, w)
            r = B.parse([text])
            n_ob += 1
            got = "panic"
            if len(r.alts) == 1 and is_ok(r.alts[0][1]):
                got = value_to_text(r.alts[0][1].fields[0][1])
            elif len(r.alts) == 1 and is_err(r.alts[0][1]):
                got = "err"
            rep.query("chain%d:%s" % (k, conn or "implicit"), "unsat" if got == want else "sat", 0.0)
            if got != want:
                d, _ = B.native_all([text])[0]
                nat = native_tree_text(d)
                if nat == want:
                    rep.inconclusive.append("long chain of %d operands (%s): model and native build disagree" % (k, conn or "implicit"))
                else:
                    rep.violation("grammar:long-chain", "%d operands joined by %r: native gives %s, the grammar gives the left-nested chain of all %d operands" % (
                        k, conn or "juxtaposition", (nat or "")[:120], k), dict(input=text, expected=want))
    samples.append(dict(level="long chains", operands=[33, 65] if tier == "quick" else [33, 64, 65, 129, 257], connectors=["", "-a", "-o", ","]))
    return n_ob


def b2z(g):
    return z3.BoolVal(g) if isinstance(g, bool) else g


def run(ctx, rep, tier):
    B = Bench(ctx, rep)
    B.validate_parse(validation_corpus(ctx, seed=rep.seed, n_random=40))
    nmax = 6 if tier == "quick" else 9
    samples = []
    for n in range(1, nmax + 1):
        token_level(B, rep, n, samples)
    for n in range(1, (3 if tier == "quick" else 5) + 1):
        string_level(B, rep, n, samples)
    long_chains(B, rep, tier, samples)
    cov = B.coverage_common()
    cov.update(explanation="precedence::parser executed symbolically from MIR over token slices of every length 1..%d with "
               "symbolic token kinds; per length, z3 decides acceptance <=> grammar sentence, tree = grammar tree, no prefix "
               "result, no panic, against CYK-style specification tables (whose unambiguity is itself solver-checked)" % nmax,
               bounds=dict(token_sequence_max_len=nmax, token_kinds=G.KINDS),
               string_level="parse(&str) on 1..%d slot-aligned words with symbolically selected spellings of %d words (incl. -and/-or)" % (3 if tier == "quick" else 5, len(WORDS)),
               long_chains="concrete chains of 33 and 65 (thorough up to 257) operands per connector: whole left-nested chain returned",
               outside="longer sequences with mixed operators; primaries with payloads (the atom rule does not inspect them)",
               samples=samples, evaluations=sum(len(G.KINDS) ** s["n"] for s in samples if "n" in s), distinct_nontrivial=len(samples) * 4)
    rep.coverage = cov
    rep.assumptions = ["winnow 0.6.7 combinators modelled (mirsym/winnow.py); derived Clone/PartialEq modelled structurally",
                       "token-level words map 1:1 to strings for replay: ( ) ! , -a -o -true -false -print"]


def replay(ctx, path):
    import json
    rp = json.load(open(path))["replay"]
    d = ctx.run_native([rp["input"]], "debug")[0]
    got = native_tree_text(d)
    print("input=%r native=%s expected=%s" % (rp["input"], got, rp.get("expected")))
    return 1 if got != rp.get("expected") else 0
