# Non-interference analysis of user text inside an emitted program (C04, C20): the rope produced by the real
# generator (MIR) contains the user's characters as symbolic terms.  The rope is read with the user characters
# taken as plain data; then z3 is asked whether some value of those characters would be read differently
# (a double quote or backslash inside a string literal, a tilde inside a format template, anything at all in code
# position).  A generator that escapes its input yields guarded alternative ropes, for which the query is unsat.
import z3
from mirsym.values import *
from scheme.reader import read_all, ReadError, Str, Sym, sym_in_strings


def walk_strings(d, out, ctx=None):
    """collect (Str, context) pairs; context = 'format-template' for the template argument of (format #f ...)"""
    if isinstance(d, Str):
        out.append((d, ctx))
    elif isinstance(d, list):
        is_fmt = len(d) >= 3 and d[0] == Sym("format")
        for i, x in enumerate(d):
            walk_strings(x, out, "format-template" if is_fmt and i == 2 else None)


def analyze(items, user_terms, data_value=None):
    """-> dict(error=None|str, occurrences=[(term, context)], bad=guard, bad_beyond=guard, ...)
    data_value: {term id -> term}: the character the user MEANT at that rope position (identity for raw user
    characters).  `bad` = some emitted character is read as syntax; `bad_beyond` = that happens although the
    character the user meant is not itself a quote / backslash / tilde (i.e. beyond plain missing escaping)."""
    ids = {t.get_id() for t in user_terms}
    data_value = data_value or {}
    try:
        data = read_all(items)
    except ReadError as e:
        return dict(error="unreadable even with benign characters: %s" % e, bad=True, occurrences=[], forms=0)
    lits = []
    walk_strings(data, lits)
    occ = []
    escaped_occ = []
    for s, ctx in lits:
        for idx, it in enumerate(s.items):
            if is_sym(it) and it.get_id() in ids:
                occ.append((it, ctx, s))
                escaped_occ.append(idx in s.escaped)
    in_strings = {t.get_id() for t, _, _ in occ}
    # user characters that the reader met outside string literals would have raised ReadError; characters that do
    # not appear at all were dropped by the generator
    missing = [t for t in user_terms if t.get_id() not in in_strings]
    bad, beyond = False, False
    for (t, ctx, s), was_escaped in zip(occ, escaped_occ):
        if was_escaped:
            # written after a backslash: data exactly when it is a double quote or a backslash (anything else is another escape
            # or a read error); a tilde still starts a directive in a template
            wrong = b_or(b_not(b_or(t == 34, t == 92)), (t == 126) if ctx == "format-template" else False)
            bad = b_or(bad, wrong)
            beyond = b_or(beyond, wrong)
            continue
        special = b_or(t == 34, t == 92, (t == 126) if ctx == "format-template" else False)
        meant = data_value.get(t.get_id(), t)
        meant_special = b_or(meant == 34, meant == 92, (meant == 126) if ctx == "format-template" else False)
        bad = b_or(bad, special)
        beyond = b_or(beyond, b_and(special, b_not(meant_special)))
    return dict(error=None, bad=bad, bad_beyond=beyond, occurrences=occ, forms=len(data), missing=missing, data=data)


def structure_of(text):
    """skeleton of a concrete program text: nested list shape with string literals replaced by their length class"""
    try:
        data = read_all([ord(c) for c in text])
    except ReadError as e:
        return ("unreadable", str(e))

    def sk(d):
        if isinstance(d, list):
            return tuple(sk(x) for x in d)
        if isinstance(d, Str):
            return ("str", d.text())
        return repr(d)
    return sk(data)
