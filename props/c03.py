# C03 -- totality: every input gets an answer, never a crash or hang.
# parse() -- and for every Ok result compile() and scheme(), for every Err result its Display -- are executed
# symbolically from MIR in BOTH profiles (dev: debug assertions + overflow checks; rel: neither) over input families
# whose characters are symbolic.  Every panic site of the crate, of winnow's debug assertions and of the modelled
# std functions is a first-class outcome; z3 decides whether any input of the family reaches one.
import time
import z3
from .common import *
from .trees import *
from .families import families

PID = "C03"
KNOWN_CLASSES = {
    "perm-bits": ("Option::unwrap", "Permission", "an octal -perm value above 07777 (5+ digits) makes Mode::from_bits(..).unwrap() panic"),
    "perm-radix": ("Result::unwrap", "Permission", "an octal -perm argument that does not fit u32 (12+ digits) makes from_str_radix(..).unwrap() panic"),
    "printf-octal": ("Result::unwrap", "FormatSpecial", "an octal escape that does not fit u16 (6+ digits) makes from_str_radix(..).unwrap() panic"),
    "depth-limit": ("unreachable", "RunOptions", "-maxdepth / -mindepth N reach unreachable!() in RunOptions::update"),
    "size-overflow": ("multiply with overflow", "Size", "a -size count whose product with the unit exceeds u64 panics in compile (debug profile)"),
    "positional": ("not yet implemented", "PositionalOption", "the word `nope` parses to a positional option whose compile arm is todo!() in release builds"),
}


_P = [None]


def norm_site(site):
    """replace `<impl at file:line..>` by the impl's self type, so that sites are named by role, not by line number"""
    def repl(m):
        info = _P[0].impl_info.get(m.group(0)) if _P[0] is not None else None
        return info["self_ty"] if info else "<impl>"
    return re.sub(r"<impl at [^>]*>", repl, site or "")


def classify(p):
    site = norm_site(p.site)
    msg = p.msg or ""
    for k, (m, where, _) in KNOWN_CLASSES.items():
        if m in msg or m in site:
            if where.lower() in site.lower() or where.lower() in msg.lower():
                return k
    # unwraps are reported with the intrinsic as site: use the message and fall back to the generic class
    if "Option::unwrap" in site or "Result::unwrap" in site or "unwrap" in msg:
        return "unwrap:" + site
    return "panic:" + (msg[:40] or site)


def explore(B, spec, assume, profile):
    """parse + compile + render + error display; -> [(guard, stage, Panic)] and stats"""
    panics = []
    r = B.parse(spec, profile, extra_assume=assume)
    n_ok = n_err = 0
    for g, v in r.alts:
        if isinstance(v, Panic):
            panics.append((g, "parse", v))
        elif is_ok(v):
            n_ok += 1
            opts, tree = v.fields[0]
            for g1, t1 in flatten_value(tree):
                gg = b_and(g, g1)
                if not r.I.feasible((), b_and(gg, *r.assume)):
                    continue
                try:
                    cr = compile_tree(B, t1, opts if not isinstance(opts, Union) else None, profile)
                except Inconclusive as e:
                    if getattr(e, "budget_pc", None) is not None:
                        e.budget_pc = list(e.budget_pc) + [gg] + list(r.assume)      # the parse path that produced this tree
                    raise
                for g2, cv in cr.alts:
                    if isinstance(cv, Panic):
                        panics.append((b_and(gg, g2), "compile", cv))
                    elif is_ok(cv):
                        for g3, ce in flatten_value(cv.fields[0]):
                            try:
                                render(B, cr, ce)
                            except Inconclusive as e:
                                panics.append((b_and(gg, g2, g3), "scheme", Panic(str(e), "scheme")))
                    else:
                        for g3, e in flatten_value(cv.fields[0]):
                            cr.I.fmt_display(cr.I, e, St())
        else:
            n_err += 1
            for g1, e in flatten_value(v.fields[0]):
                try:
                    r.I.fmt_display(r.I, e, St())
                except Unsupported as ex:
                    raise Inconclusive("Display of the error value: %s" % ex)
    return r, panics, n_ok, n_err


WORK_LIMIT = 10 ** 9


def nesting_shapes(d):
    return {
        "left": "( " * d + "-true )" + " -true )" * (d - 1),
        "right": " ".join(["( -true"] * d) + " )" * d,
        "both": "( -true " * d + "-false" + " -print )" * d,
        "centre": "( " * d + "-true" + " )" * d,
        "left-or": "( " * d + "-true )" + " -o -false )" * (d - 1),
        "left-comma": "( " * d + "-true )" + " , -print )" * (d - 1),
        "left-and": "( " * d + "-true )" + " -a -name x )" * (d - 1),
        "not": "! ( " * d + "-true" + " )" * d,
        "not-left": "( ! " * d + "-true )" + " -o ! -false )" * (d - 1),
        "unclosed": "( " * d + "-true",
        "left-unclosed": "( " * d + "-true )" + " -true )" * (d - 2) + " -true",
        "extra-close": "( " * d + "-true" + " )" * (d + 1),
        "dangling": "( " * d + "-true )" + " -o )" * (d - 1),
    }


def nesting_work(B, rep, tier, samples):
    """Termination within the nesting bound (64): concrete inputs of nested groups in every position (enumeration of shapes, not
    a solver verdict).  The packrat model runs each (parser function, position) once but accounts for the activations the real
    parser performs; a parser that re-parses a group per alternative doubles the count per level.  More than WORK_LIMIT activations
    for an input under 1 KiB is reported as non-termination after the native build failed to answer within 20 s."""
    import subprocess
    worst = (0, None)
    for d in ((24, 64) if tier == "quick" else (8, 16, 24, 32, 48, 64)):
        for shape, text in nesting_shapes(d).items():
            t = time.time()
            r = B.parse([text])
            w = r.I.winnow.work
            rep.query("nesting:%s:d%d:work<=%d" % (shape, d, WORK_LIMIT), "unsat" if w <= WORK_LIMIT else "sat", time.time() - t, work=w, input_bytes=len(text))
            worst = max(worst, (w, "%s d=%d" % (shape, d)))
            if w <= WORK_LIMIT:
                continue
            try:
                B.ctx.run_native([text], "debug", timeout=20)
                rep.inconclusive.append("nesting %s depth %d: %d parser activations in the model, but the native build answers within 20 s" % (shape, d, w))
            except subprocess.TimeoutExpired:
                rep.violation("non-termination:nested-groups", "input of %d bytes, nesting depth %d (%s): %.3g parser-function activations; the native debug build "
                              "gives no answer within 20 s" % (len(text), d, shape, float(w)), dict(input=text, timeout_s=20))
                return
    samples.append(dict(family="nesting", worst_work=worst[0], worst_case=worst[1], limit=WORK_LIMIT))


def nonterminating(B, rep, name, spec, assume, e):
    """a loop of the crate ran past the engine's budget on some path of this family: the solver gives an input on that path,
    and the native build is given 20 s for it; no answer = non-termination (reported), an answer = the budget was too small
    (the run stays inconclusive)"""
    import subprocess
    chars = [x for x in spec if not isinstance(x, str)]
    res, m = B.solve("%s:budget-path" % name, [char_valid(c) for c in chars] + list(assume) + list(e.budget_pc), True)
    if res != z3.sat:
        return False
    text = model_string(m, spec)
    try:
        B.ctx.run_native([text], "debug", timeout=20)
        return False
    except subprocess.TimeoutExpired:
        rep.violation("non-termination:loop", "%r: %s; the native debug build gives no answer within 20 s" % (text, str(e).splitlines()[0][-160:]),
                      dict(input=text, timeout_s=20))
        return True


def run(ctx, rep, tier):
    B = Bench(ctx, rep)
    known = {k["class"] for k in vlib.known_for(PID)}
    _P[0] = B.engine("dev").P
    B.validate_parse(validation_corpus(ctx, seed=rep.seed, n_random=30), "dev")
    B.validate_parse(validation_corpus(ctx, seed=rep.seed, n_random=0)[:60], "rel")
    samples = []
    n_fam = 0
    t0 = time.process_time()
    budget = (900 if tier == "quick" else 6000) * float(os.environ.get("VERIF_BUDGET_SCALE", "1"))
    fams = list(families(tier, ("octal", "digits", "words"))) + list(families(tier, ("any", "kwarg"))) + list(families(tier, ("long",)))
    only = os.environ.get("VERIF_C03_ONLY")
    quick_names = {n_ for n_, _, _ in list(families("quick", ("octal", "digits", "words"))) + list(families("quick", ("any", "kwarg"))) +
                   list(families("quick", ("long",)))}
    not_decided = []
    # the families of the quick tier first, then the thorough-only ones: the CPU budget then truncates the extras, never the core
    fams = [f for f in fams if f[0] in quick_names] + [f for f in fams if f[0] not in quick_names]
    if not only or "nesting" in only.split(","):
        nesting_work(B, rep, tier, samples)
    for name, spec, assume in fams:
        if only and name not in only.split(","):
            continue
        if time.process_time() - t0 > budget:
            rep.coverage["truncated_at_family"] = name
            break
        vlib.log("[c03] family %-22s cpu=%.0fs" % (name, time.process_time() - t0))
        profiles = ("dev", "rel")
        if name.startswith("long") or (tier == "quick" and (("+" in name and not name.endswith("d") and "unit" not in name and name[0] == "-") or name in ("any4",))):
            profiles = ("dev",)          # keyword + arbitrary argument: the profiles differ only in arithmetic and cfg arms
        for profile in profiles:
            try:
                r, panics, n_ok, n_err = explore(B, spec, assume, profile)
            except (Inconclusive, ValueError) as e:
                if getattr(e, "budget_pc", None) is not None and nonterminating(B, rep, name, spec, assume, e):
                    continue
                # a family of the thorough tier only that exceeds the engine's capacity (path explosion) is not decided: it is listed,
                # not claimed; families of the quick tier and unmodelled constructs stay inconclusive
                if name not in quick_names and any(k in str(e) for k in ("too many", "step budget exceeded")):
                    not_decided.append(dict(family=name, profile=profile, reason=str(e).splitlines()[0][-120:]))
                    vlib.log("[c03] family %s (%s) NOT DECIDED: %s" % (name, profile, str(e).splitlines()[0][-120:]))
                    continue
                raise
            n_fam += 1
            by_class = {}
            for g, stage, p in panics:
                by_class.setdefault(classify(p), []).append((g, stage, p))
            unknown_g = b_or(*[g for k, lst in by_class.items() if k not in known for g, _, _ in lst])
            res, m = B.solve("%s:%s:no-panic" % (name, profile), r.assume, unknown_g)
            if res == z3.sat:
                text = model_string(m, spec)
                k = [k for k, lst in by_class.items() if k not in known and any(eval_guard(m, g) for g, _, _ in lst)]
                confirm(B, rep, text, profile, k[0] if k else "panic", None)
            for k, lst in by_class.items():
                if k in known:
                    res2, m2 = B.solve("%s:%s:known:%s" % (name, profile, k), r.assume, b_or(*[g for g, _, _ in lst]))
                    if res2 == z3.sat:
                        confirm(B, rep, model_string(m2, spec), profile, k, KNOWN_CLASSES[k][2])
            if len(samples) < 10 and profile == "dev":
                samples.append(dict(family=name, shape=show_spec(spec)[:60], ok_outcomes=n_ok, err_outcomes=n_err, panic_outcomes=len(panics)))
    cov = B.coverage_common()
    cov.update(explanation="parse, compile, scheme and error Display executed symbolically from MIR in both profiles over %d family/profile "
               "pairs (all strings up to 4 (6) code points; every argument-taking keyword with 0..2 (4) arbitrary characters; decimal strings up "
               "to 21 (40) digits after numeric keywords with and without unit; octal strings up to 12 (14) digits; slot-aligned word "
               "sequences); z3 decides reachability of every panic outcome; panics are classified by site and message" % n_fam,
               bounds=dict(any_len=4 if tier == "quick" else 5, families=n_fam, families_not_decided_engine_capacity=not_decided), samples=samples,
               outside="inputs longer than the bounds (the property's 4 KiB / nesting 64: stack depth is not decidable by this encoding), "
                       "allocation failure; termination inside the bound follows from the interpreter terminating with every repeat "
                       "iteration consuming input (a non-consuming iteration is reported as winnow's assert outcome)",
               evaluations=len(rep.queries), distinct_nontrivial=len(rep.queries))
    rep.coverage = cov


def confirm(B, rep, text, profile, klass, known_text):
    d, r = B.native_all([text])[0]
    nat = d if profile == "dev" else r
    panicked = nat.get("parse") == "panic" or nat.get("compile") == "panic" or ("panic" in nat and "scheme" not in nat and nat.get("compile") == "ok")
    if not panicked:
        rep.inconclusive.append("panic witness %r (%s, %s) does not reproduce natively" % (text, klass, profile))
        return
    what = "%r panics in the %s build: %s" % (text, "debug" if profile == "dev" else "release", nat.get("panic"))
    rep.violation(klass, (known_text + "; witness " + what) if known_text else what, dict(input=text, profile=profile, native_debug=d, native_release=r))


def replay(ctx, path):
    import json
    rp = json.load(open(path))["replay"]
    if "timeout_s" in rp:
        import subprocess
        try:
            ctx.run_native([rp["input"]], "debug", timeout=rp["timeout_s"])
        except subprocess.TimeoutExpired:
            print("input of %d bytes: no answer within %d s" % (len(rp["input"]), rp["timeout_s"]))
            return 1
        print("input of %d bytes: answered" % len(rp["input"]))
        return 0
    d = ctx.run_native([rp["input"]], "debug")[0]
    r = ctx.run_native([rp["input"]], "release")[0]
    print("input=%r debug: %s %s | release: %s %s" % (rp["input"], d.get("parse"), d.get("panic", ""), r.get("parse"), r.get("panic", "")))
    return 1 if "panic" in d or "panic" in r else 0
