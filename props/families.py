# Input families shared by C03 (totality), C17 (profile equality), C05/C07/C18: each family is an input spec
# (concrete text + symbolic characters) with assumptions on the symbolic characters.
import z3
from .common import *

NUMERIC_KW = [("-uid", 32), ("-gid", 32), ("-inum", 32), ("-links", 64), ("-mirror-count", 32), ("-stripe-count", 32), ("-threads", 32),
              ("-maxdepth", 32), ("-mindepth", 32)]
UNIT_KW = [("-size", "bcwkMGT"), ("-amin", "smhd"), ("-atime", "smhd"), ("-mmin", "smhd"), ("-mtime", "smhd"), ("-cmin", "smhd"), ("-ctime", "smhd")]
STRING_KW = ["-name", "-iname", "-path", "-ipath", "-pool", "-xattr", "-fprint", "-fprint0", "-fls", "-anewer", "-regex", "-user", "-group",
             "-fstype", "-samefile", "-lname", "-ilname", "-iregex", "-cnewer", "-mnewer"]
OTHER_KW = ["-perm", "-type", "-printf", "-fprintf", "-xattr-match"]
NULLARY = ["-true", "-false", "-empty", "-executable", "-readable", "-writable", "-nouser", "-nogroup", "-print", "-print0", "-ls", "-prune",
           "-quit", "-print-file-fid", "-depth"]
ALL_ARG_KW = [k for k, _ in NUMERIC_KW] + [k for k, _ in UNIT_KW] + STRING_KW + OTHER_KW


def digit():
    c = sym_char()
    return c, z3.And(z3.UGE(c, 48), z3.ULE(c, 57))


def octdigit():
    c = sym_char()
    return c, z3.And(z3.UGE(c, 48), z3.ULE(c, 55))


def anychars(n):
    return [sym_char() for _ in range(n)]


def families(tier, which=("any", "kwarg", "digits", "octal", "words", "long")):
    """yields (name, spec, assumptions)"""
    q = tier == "quick"
    if "long" in which:
        # long words: N ASCII characters, one arbitrary code point, a short tail -- as an unknown word, as a bad argument and as
        # a good string argument; any fixed-size handling of echoed or stored text (clipping, buffers) is crossed by some N
        for n in (range(1, 100, 2) if q else range(1, 140)):
            c = sym_char()
            yield ("longword%d" % n, ["-" + "y" * n, c, "z"], [char_valid(c), c != 32, c != 9, c != 10, c != 13, c != 41])
        for n in (range(2, 100, 3) if q else range(1, 140)):
            c = sym_char()
            yield ("longarg%d" % n, ["-uid " + "x" * n, c, "z"], [char_valid(c), c != 32, c != 9, c != 10, c != 13, c != 41])
            if not q:
                c2 = sym_char()
                yield ("longname%d" % n, ["-name " + "x" * n, c2, "z -fprint " + "f" * n, c2], [char_valid(c2), c2 != 32, c2 != 9, c2 != 10, c2 != 13, c2 != 41, c2 != 39, c2 != 34])
    if "any" in which:
        for L in range(0, (4 if q else 5) + 1):        # 6 arbitrary characters: path explosion in the escaping loops (measured)
            yield ("any%d" % L, anychars(L) if L else [""], [])
    if "strarg" in which:
        # text arguments of 1-2 arbitrary code points (incl. non-ASCII: UTF-8 widths 1-4) at keywords that reach different generators
        for kw in ("-name", "-ipath", "-pool", "-fprint0", "-xattr"):
            for k in ((1, 2) if q else (1, 2, 3)):
                yield ("%s~%d" % (kw, k), [kw + " "] + anychars(k), [])
    if "kwarg" in which:
        for kw in ALL_ARG_KW:
            for k in ((0, 2) if q else (0, 1, 2, 3)):
                yield ("%s+%d" % (kw, k), [kw + " "] + anychars(k), [])
        for kw in ("-fprintf", "-xattr-match"):
            for k in ((1,) if q else (1, 2, 3)):
                yield ("%s a +%d" % (kw, k), [kw + " a "] + anychars(k), [])
        for k in ((1, 2) if q else (1, 2, 3, 4)):
            cs = anychars(k)
            yield ("-printf'%d" % k, ["-printf '"] + cs + ["'"], [c != 39 for c in cs])
    if "digits" in which:
        lens = (1, 9, 10, 11, 19, 20, 21) if q else tuple(range(1, 26)) + (30, 40)
        for kw, bits in NUMERIC_KW[:7] if q else NUMERIC_KW:
            for n in lens:
                if q and kw not in ("-uid", "-links", "-threads", "-maxdepth") and n not in (10, 20):
                    continue
                if not q and n > 21 and kw not in ("-uid", "-links"):
                    continue             # 22..40 digits cost minutes per family: one 32-bit and one 64-bit keyword
                ds, asm = zip(*[digit() for _ in range(n)])
                yield ("%s %dd" % (kw, n), [kw + " "] + list(ds), list(asm))
        # the thread count next to actions that select the other output mode / other managers (the number is emitted by compile)
        for tail in ((" -print0", " -fprint a") if q else (" -print0", " -fprint a", " -printf x", " -print", " -name b -fprintf o '%p'")):
            ds, asm = zip(*[digit() for _ in range(10)])
            yield ("-threads 10d%s" % tail, ["-threads "] + list(ds) + [tail], list(asm))
        for kw, units in UNIT_KW[:3] if q else UNIT_KW:
            for n in ((1, 15, 19, 20, 21) if q else (1, 5, 10, 15, 18, 19, 20, 21, 25)):
                ds, asm = zip(*[digit() for _ in range(n)])
                u = sym_char()
                yield ("%s %dd+unit" % (kw, n), [kw + " "] + list(ds) + [u], list(asm) + [z3.Or(*[u == ord(x) for x in units])])
                if not q or n in (19, 20):
                    yield ("%s +%dd" % (kw, n), [kw + " +"] + list(ds), list(asm))
    if "octal" in which:
        for n in ((3, 4, 5, 11, 12) if q else range(1, 15)):
            ds, asm = zip(*[octdigit() for _ in range(n)])
            yield ("-perm %do" % n, ["-perm "] + list(ds), list(asm))
            if not q or n in (4, 11):
                yield ("-perm -%do" % n, ["-perm -"] + list(ds), list(asm))
        for n in ((3, 5, 6, 7) if q else range(1, 12)):
            ds, asm = zip(*[octdigit() for _ in range(n)])
            yield ("-printf \\%do" % n, ["-printf 'a\\"] + list(ds) + ["b'"], list(asm))
    if "words" in which:
        # slot-aligned word sequences: the glue between lexer, option handling and the grammar
        words = ["(", ")", "!", ",", "-a", "-o", "-true", "-print", "-depth", "nope", "-ls", "-bogus", "-name x", "-threads 2", "-maxdepth 1"]
        width = max(len(w) for w in words) + 1
        for n in ((1, 2) if q else (1, 2, 3, 4)):
            spec, asm = [], []
            for i in range(n):
                sel = z3.Int("w%d_%d" % (n, i))
                asm.append(z3.And(sel >= 0, sel < len(words)))
                for j in range(width):
                    t = z3.BitVecVal(32, 32)
                    for k, w in reversed(list(enumerate(words))):
                        t = z3.If(sel == k, z3.BitVecVal(ord(w[j]) if j < len(w) else 32, 32), t)
                    spec.append(t)
            yield ("words%d" % n, spec, asm)
