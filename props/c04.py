# C04 -- the emitted program is well-formed Scheme and user text stays data.
# For every interpolation site a user string of k symbolic code points is delivered through the real parse()
# (so only strings a user can actually supply are considered), compiled and rendered by the real code (MIR);
# the resulting rope is read by the independent reader and z3 decides whether any value of the user characters
# changes how the program reads (usertext.analyze).
import time
import z3
from .common import *
from .trees import *
from .usertext import analyze, structure_of

PID = "C04"
DEVIATIONS = {"clear-escape": "the documented escape \\c of a format is emitted as \\c inside a Scheme string literal, which is no Guile escape: the program "
                              "cannot be read (same root as C02 clear-escape)"}
# site -> (input pieces around the user string, quoting, description)
SITES = [
    ("matcher:-name", ["-name '", "'"]), ("matcher:-iname", ["-iname '", "'"]), ("matcher:-path", ["-path '", "'"]),
    ("matcher:-ipath", ["-ipath '", "'"]), ("matcher-framed:-name", ["-print0 -name '", "'"]),
    ("pool", ["-pool '", "'"]), ("xattr", ["-xattr '", "'"]), ("xattr-match:name", ["-xattr-match '", "' v"]),
    ("xattr-match:value", ["-xattr-match n '", "'"]), ("xattr-match:value-pattern", ["-xattr-match n '*", "'"]),
    ("format-literal", ["-printf 'a", "\\n'"]), ("format-literal-file", ["-fprintf out 'a", "'"]),
    ("strftime-selector", ["-printf '%A", "\\n'"]), ("xattr-directive", ["-printf '%{xattr:", "}\\n'"]),
    ("format-escape", ["-printf 'a\\", "b\\n'"]),
    # two user strings in one expression (a second string of one character after the first): each must reach its own literal
    ("matcher:pair:-name/-iname", ["-name '", "' -o -iname '", "'"]), ("matcher:pair:-ipath/-path", ["-ipath '", "' -o -path '", "'"]),
]


def decoded(s, ctx):
    """what a string literal stands for where it is used: itself, or -- as the template of (format #f ...) -- the text that
    format prints for it (`~~` is one tilde, `~%` a newline; other directives are kept as written)"""
    items = list(s.items)
    if ctx != "format-template":
        return items
    out, i = [], 0
    while i < len(items):
        if items[i] == 126 and i + 1 < len(items) and items[i + 1] == 126:
            out.append(126); i += 2
        elif items[i] == 126 and i + 1 < len(items) and items[i + 1] == 37:
            out.append(10); i += 2
        else:
            out.append(items[i]); i += 1
    return out


def seq_eq(xs, ys):
    conj = []
    for a_, b_ in zip(xs, ys):
        if isinstance(a_, int) and isinstance(b_, int):
            if a_ != b_:
                return False
        elif is_sym(a_) and is_sym(b_) and a_.eq(b_):
            continue
        else:
            conj.append(a_ == b_)
    return b_and(*conj)


def holds_text(data, target, whole):
    """guard: some string literal of the program decodes to exactly `target` (whole) / contains it as a contiguous run"""
    from .usertext import walk_strings
    lits = []
    walk_strings(data, lits)
    alts = []
    n = len(target)
    for s_, ctx_ in lits:
        d_ = decoded(s_, ctx_)
        if whole:
            if len(d_) == n:
                alts.append(seq_eq(d_, target))
        else:
            for i in range(len(d_) - n + 1):
                alts.append(seq_eq(d_[i:i + n], target))
    return b_or(*alts)


def concrete_holds(text, target, whole):
    from scheme.reader import read_all, ReadError
    try:
        data = read_all([ord(c) for c in text])
    except ReadError:
        return False
    return holds_text(data, [ord(c) for c in target], whole) is True


def run(ctx, rep, tier):
    B = Bench(ctx, rep)
    known = {k["class"] for k in vlib.known_for(PID)}
    kmax = 2 if tier == "quick" else 3
    samples = []
    B.validate_parse(["-name 'a\"b'", "-name 'a\\b'", "-printf 'a~b\\n'", "-pool 'p\"'", "-printf '%A\"'"] + validation_corpus(ctx, seed=rep.seed, n_random=5)[:30])
    # longer strings at a few sites: multi-character tokens (template markers and the like) need room to form
    LONG = {"matcher:-name": (5,), "pool": (5,), "format-literal": (5,), "xattr-match:value": (5,)} if tier == "quick" else \
           {"matcher:-name": (4, 5, 6), "pool": (4, 5, 6), "format-literal": (4, 5, 6), "format-literal-file": (5,), "xattr-match:value": (5, 6),
            "matcher-framed:-name": (5,), "xattr": (5,)}
    for site, parts in SITES:
        pre, post = parts[0], parts[-1]
        pair = len(parts) == 3
        for k in ((3, 1) if pair else list(range(1, kmax + 1)) + list(LONG.get(site, ()))):
            if site == "strftime-selector" and k > 1:
                continue
            us = [sym_char() for _ in range(k)]
            spec = [pre] + us + [post]
            if pair:
                # first string k characters, second string 4 - k characters, both arbitrary
                us2 = [sym_char() for _ in range(4 - k)]
                spec = [pre] + us + [parts[1]] + us2 + [post]
                us = us + us2
            extra = [u != 39 for u in us]
            if site == "xattr-directive":
                # a '}' ends the directive: what follows is literal format text, which is the format-literal site
                extra += [u != 125 for u in us]
            if k > kmax and site.startswith("format"):
                # long literal text: directive / escape introducers are covered by the short strings
                extra += [z3.And(u != 37, u != 92) for u in us]
            meant_char = None
            if site == "format-escape":
                # three octal digits: the character the user means is the one with that code
                if k != 1:
                    continue
                us = [sym_char() for _ in range(3)]
                spec = [pre] + us + [post]
                extra = [z3.And(z3.UGE(u, 48), z3.ULE(u, 55)) for u in us]
                meant_char = (us[0] - 48) * 64 + (us[1] - 48) * 8 + (us[2] - 48)
            r = B.parse(spec, extra_assume=extra)
            bad_total, beyond_total, reach, lost_total = False, False, False, False
            value_wrong = False
            inq_pre = pre.rsplit("'", 1)[-1]
            fmt_site = site.startswith("format-literal")
            whole_site = not (site.startswith("format") or site in ("strftime-selector", "xattr-directive"))
            if pair:
                targets = [us[:k], us[k:]]
            elif whole_site:
                targets = [[ord(c) for c in inq_pre] + us]
            elif fmt_site:
                targets = [[ord(c) for c in inq_pre] + us]
            else:
                targets = []
            witness_info = None
            n_prog = 0
            for g, v in r.alts:
                if isinstance(v, Panic) or not is_ok(v):
                    continue
                opts, tree = v.fields[0]
                for g1, tree1 in flatten_value(tree):
                    gg = b_and(g, g1)
                    cr = compile_tree(B, tree1)
                    cr.I.assumptions = list(r.assume) + [gg]
                    for g2, cv in cr.alts:
                        if isinstance(cv, Panic) or not is_ok(cv):
                            continue
                        for g3, ce in flatten_value(cv.fields[0]):
                            g_all = b_and(gg, g2, g3)
                            for g4, items in render_alts(B, cr, ce):
                              g_all = b_and(gg, g2, g3, g4)
                              n_prog += 1
                              if meant_char is not None:
                                  # the emitted character terms are whatever symbolic items the template holds
                                  emitted = [it for it in items if is_sym(it)]
                                  a = analyze(items, emitted, {t.get_id(): meant_char for t in emitted})
                              else:
                                  a = analyze(items, us)
                              reach = b_or(reach, g_all)
                              if a["error"]:
                                  bad_total = b_or(bad_total, g_all)
                                  witness_info = a["error"]
                              else:
                                  if a["forms"] != 2:
                                      bad_total = b_or(bad_total, g_all)
                                      witness_info = "%d top-level forms" % a["forms"]
                                  if a["missing"] and not (site.startswith("format") or site in ("strftime-selector", "xattr-directive")):
                                      bad_total = b_or(bad_total, g_all)
                                      lost_total = b_or(lost_total, g_all)
                                      witness_info = "user characters do not reach any string literal"
                                  bad_total = b_or(bad_total, b_and(g_all, a["bad"]))
                                  for tg in targets:
                                      value_wrong = b_or(value_wrong, b_and(g_all, b_not(holds_text(a["data"], tg, whole_site))))
                                  beyond_total = b_or(beyond_total, b_and(g_all, a["bad_beyond"]))
            tag = "%s:k%d" % (site, k)
            res0, _ = B.solve(tag + ":reach", r.assume, reach)
            if res0 != z3.sat:
                rep.inconclusive.append("site %s never produces a program (vacuous)" % tag)
                continue
            # the documented escape \c is emitted as an escape Guile rejects (known finding `clear-escape`, shared with C02): decided
            # separately, so that it can neither mask nor be masked by anything else
            excl = False
            if site.startswith("format") and meant_char is None:
                for i_ in range(len(us) - 1):
                    excl = b_or(excl, b_and(us[i_] == 92, us[i_ + 1] == 99))
            res, m = B.solve(tag + ":user-text-stays-data", r.assume, b_and(bad_total, b_not(excl)))
            if res == z3.sat:
                text = model_string(m, spec)
                confirm(B, rep, known, site, text, us, m, spec)
            if excl is not False:
                resk, mk = B.solve(tag + ":known:clear-escape", r.assume, b_and(bad_total, excl))
                if resk == z3.sat:
                    text = model_string(mk, spec)
                    d = B.ctx.run_native([text], "debug")[0]
                    s1 = structure_of(d.get("scheme", ""))
                    if s1 and s1[0] == "unreadable" and "\\c" in str(s1[1]):
                        rep.violation("clear-escape", DEVIATIONS["clear-escape"] + "; witness %r" % text, dict(input=text))
                    else:
                        rep.inconclusive.append("clear-escape witness %r does not reproduce natively" % text)
            # its own query, so that a known missing-escaping finding at the same site cannot mask it
            res3, m3 = B.solve(tag + ":user-text-reaches-a-literal", r.assume, lost_total)
            if res3 == z3.sat:
                text = model_string(m3, spec)
                user = "".join(chr(model_char(m3, u)) for u in us)
                d = B.ctx.run_native([text], "debug")[0]
                strings = [user[:k], user[k:]] if pair else [user]
                if all(('"%s"' % x) in d.get("scheme", "") or (not pair and x in d.get("scheme", "")) for x in strings):
                    rep.inconclusive.append("witness %r for lost user text at site %s does not reproduce natively" % (text, site))
                else:
                    rep.violation("user-text-lost:" + site.split(":")[0], "the user string %r of %r does not appear in the emitted program (site %s)" % (user, text, site),
                                  dict(input=text, native_scheme=d.get("scheme", "")[-400:]))
            # the decoded value of the literal is exactly the user text (whole-value sites) / literal format text is printed
            # verbatim (format sites, text without directive or escape introducers): nothing added, doubled, dropped or folded
            if targets:
                plain = [z3.And(u != 37, u != 92) for u in us] if fmt_site else []
                res4, m4 = B.solve(tag + ":decoded-value-is-the-user-text", list(r.assume) + plain, b_and(value_wrong, b_not(bad_total)))
                if res4 == z3.sat:
                    text = model_string(m4, spec)
                    user = "".join(chr(model_char(m4, u)) for u in us)
                    d = B.ctx.run_native([text], "debug")[0]
                    want = [user[:k], user[k:]] if pair else [inq_pre + user]
                    if d.get("scheme") and not all(concrete_holds(d["scheme"], w_, whole_site) for w_ in want):
                        rep.violation("user-text-altered:" + site.split(":")[0], "%r: no string literal of the emitted program stands for the user text %r (site %s)" % (text, want, site),
                                      dict(input=text, native_scheme=d.get("scheme", "")[-400:]))
                    else:
                        rep.inconclusive.append("witness %r for altered user text at site %s does not reproduce natively" % (text, site))
            # beyond plain missing escaping: a character that is not itself special must never be read as syntax
            res2, m2 = B.solve(tag + ":no-new-special-characters", r.assume, beyond_total)
            if res2 == z3.sat:
                text = model_string(m2, spec)
                confirm(B, rep, set(), site + ":derived", text, us, m2, spec)
            if len(samples) < 10:
                samples.append(dict(site=site, k=k, input_shape=show_spec(spec), programs=n_prog, verdict=str(res)))
    cov = B.coverage_common()
    cov.update(explanation="for each of %d interpolation sites and each length 1..%d, parse() then compile/scheme() are executed from MIR "
               "with the user string symbolic (any code point the quoting style can deliver); the rope is read back and z3 decides whether "
               "some value of the user characters is read as anything but data (quote, backslash, format tilde, code position)" % (len(SITES), kmax),
               bounds=dict(user_string_len=kmax, longer_strings_at={k_: list(v_) for k_, v_ in LONG.items()}, sites=[s for s, _ in SITES]), samples=samples,
               outside="file names in open-file (plain-mode file printers are unreachable through compile); device path (C20); longer strings",
               evaluations=len(rep.queries), distinct_nontrivial=len(rep.queries))
    rep.coverage = cov
    rep.assumptions = ["Guile string syntax as implemented in scheme/reader.py; format directives start with ~"]


def confirm(B, rep, known, site, text, us, m, spec):
    """replay natively: the program for the witness must read differently from the program for a benign string"""
    benign = model_string(_Benign(), spec)
    d, d0 = B.ctx.run_native([text, benign], "debug")
    s1, s0 = structure_of(d.get("scheme", "")), structure_of(d0.get("scheme", ""))
    user = "".join(chr(model_char(m, u)) for u in us)
    benign_user = "a" * len(us)

    def subst(x):
        # the benign program with the benign user string replaced by the witness string, as data
        if isinstance(x, tuple) and x and x[0] == "str":
            return ("str", x[1].replace(benign_user, user))
        if isinstance(x, tuple):
            return tuple(subst(y) for y in x)
        return x
    tilde = "~" in user
    differs = (s1 != subst(s0)) or (tilde and site.startswith("format"))
    if not differs:
        rep.inconclusive.append("witness %r for site %s does not change how the native program reads" % (text, site))
        return
    klass = ("special-character-created:" if site.endswith(":derived") else "unescaped:") + site.split(":")[0]
    what = "user text is interpolated without escaping at site %s: %r gives a program that reads differently (%s)" % (
        site, text, s1[1] if s1 and s1[0] == "unreadable" else "structure changes" if not tilde else "~ becomes a format directive")
    if klass in known:
        rep.violation(klass, what, dict(input=text))
    else:
        rep.violation(klass, what, dict(input=text, benign=benign, native_scheme=d.get("scheme", "")[-400:]))


class _Benign:
    def eval(self, t, model_completion=True):
        return z3.BitVecVal(ord("a"), 32)


def replay(ctx, path):
    import json
    rp = json.load(open(path))["replay"]
    d = ctx.run_native([rp["input"]], "debug")[0]
    s = structure_of(d.get("scheme", ""))
    print("input=%r\nprogram reads as: %s" % (rp["input"], str(s)[:300]))
    return 1
