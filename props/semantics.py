# Comparison of "what the emitted policy does" (Engine S on the program produced by the real compile,
# executed from MIR) with "what the expression means" (spec/findsem) on one symbolic file record.
import time
import z3
from .common import *
from .trees import *
from scheme.reader import read_all, ReadError
from scheme.eval import FileRec, run_program, RuntimeErr, Machine, num, NW, DIVDEFS, reset_divdefs
from spec import findsem


def zb(x):
    return z3.BoolVal(x) if isinstance(x, bool) else x


def key_items(items):
    return tuple(items)


def val_eq(a, b):
    """equality of two payload values (tuples) as a guard"""
    if isinstance(a, tuple) and isinstance(b, tuple):
        if len(a) != len(b) or a[:1] != b[:1] and not (a and b and a[0] in ("int", "bv") and b[0] in ("int", "bv")):
            return False
        tag = a[0] if a else None
        if tag in ("int", "bv"):
            return num(a[1]) == num(b[1])
        if tag == "ratio":
            return z3.And(num(a[1]) == num(b[1]), num(a[2]) == num(b[2]))
        if tag == "arg":
            return b_and(a[1] == b[1], val_eq(a[2], b[2]))
        if tag == "chr":
            x, y = a[1], b[1]
            return x == y if not (is_sym(x) or is_sym(y)) else num(x) == num(y)
        return b_and(*[val_eq(x, y) for x, y in zip(a, b)])
    if is_sym(a) or is_sym(b):
        return a == b
    return a == b


def items_eq(a, b):
    """two payload ropes: same length, itemwise equal"""
    # a spec ("chr", n) item is one character whose code is n; the implementation writes the character itself
    a, b = list(a), list(b)
    if len(a) != len(b):
        return False
    acc = True
    for x, y in zip(a, b):
        if isinstance(y, tuple) and y and y[0] == "chr" and not isinstance(x, tuple):
            n = y[1]
            acc = b_and(acc, (x == n) if not (is_sym(n) or is_sym(x)) else num(n) == num(x))
        else:
            acc = b_and(acc, val_eq(x, y) if isinstance(x, tuple) or isinstance(y, tuple) else x == y)
        if acc is False:
            return False
    return acc


def impl_outputs(M, iomap):
    """normalise the machine's events to (guard, dest, payload, term) records.
    iomap: None (plain mode) or {tag:int -> (dest, term)}.  Returns (outputs, problems)"""
    outs, problems = [], []
    ev = M.events
    i = 0
    while i < len(ev):
        e = ev[i]
        if e["kind"] == "record":
            dest = M.ports.get(e["port"])
            if dest is None:
                problems.append(("write to an unknown port", e))
            if not any(h == e_m for h in e["held"] for e_m in [h]):
                pass
            outs.append(dict(guard=e["guard"], dest=dest, payload=e["payload"], term=e["extra"], framed=False))
            i += 1
        elif e["kind"] == "direct":
            outs.append(dict(guard=e["guard"], dest=("stdout",), payload=e["payload"], term=e["extra"], framed=False, direct=True))
            i += 1
        elif e["kind"] == "write":
            # framed output: payload, then (string #\x1e tag), same guard, under the same mutex
            if i + 1 < len(ev) and ev[i + 1]["kind"] == "write" and ev[i + 1]["port"] == e["port"] and \
                    len(ev[i + 1]["payload"]) == 2 and ev[i + 1]["payload"][0] == 0x1e and ev[i + 1]["guard"] is e["guard"]:
                tag = ev[i + 1]["payload"][1]
                if not e["held"] or e["held"] != ev[i + 1]["held"]:
                    problems.append(("frame written without holding one mutex across both writes", e))
                if iomap is None:
                    problems.append(("frame written but no destination table", e))
                    dest, term = None, None
                elif tag not in iomap:
                    problems.append(("frame tag %r is not a key of the destination table" % (tag,), e))
                    dest, term = None, None
                else:
                    dest, term = iomap[tag]
                outs.append(dict(guard=e["guard"], dest=dest, payload=e["payload"], term=term, framed=True, tag=tag))
                i += 2
            else:
                problems.append(("bare write outside a frame", e))
                i += 1
        else:
            i += 1
    return outs, problems


def iomap_of(ce):
    """CompiledExpression value -> None | {tag: (dest, term)}"""
    io = ce.fields[ce.names.index("io_map")]
    if io.variant == "None":
        return None
    m = io.fields[0]
    out = {}
    for k, t in m.entries:
        if t.variant == "Stdout":
            dest = ("stdout",)
            term = t.fields[0]
        else:
            dest = ("file", tuple(t.fields[0].items))
            term = t.fields[1]
        term = None if term.variant == "None" else term.fields[0]
        out[k] = (dest, term)
    return out


def compare_spec(B, label, tree, meaning, sexpr, assume_extra=(), opts=None):
    return compare(B, label, tree, sexpr, assume_extra, opts, meaning=meaning)


def compare(B, label, tree, sexpr, assume_extra=(), opts=None, want_modes=True, meaning=None):
    """compile `tree` with the real code (M), run the emitted program (S) and the specification on one symbolic
    file record, and decide equivalence with z3.  Returns list of findings: dict(klass, text, model_info)."""
    findings = []
    if meaning is None:
        # the meaning of an expression without action is that of "( expr ) -a -print" (C09 decides that rule separately)
        meaning = tree
        if not findsem.has_action(tree):
            meaning = Adt("Expression", "Operator", [BoxV(Adt("Operator", "And", [tree, Adt("Expression", "Action", [Adt("Action", "DefaultPrint")])]), "Rc")])
    r = compile_tree(B, tree, opts)
    panic_g = b_or(*[g for g, v in r.alts if isinstance(v, Panic)])
    oks = [(g, v) for g, v in r.alts if is_ok(v)]
    if not oks:
        return findings, dict(compiled=False, run=r, panic=panic_g)
    info = dict(compiled=True, run=r, programs=0, panic=panic_g)
    # C02 speaks about expressions that compile: inputs on which compile panics are excluded here (C03/C07)
    assume_extra = list(assume_extra) + ([b_not(panic_g)] if panic_g is not False else [])
    for g, v in oks:
        for g2, ce in flatten_value(v.fields[0]):
            gg = b_and(g, g2)
            items = render(B, r, ce)
            reset_divdefs()
            frec = FileRec("f")
            clock_raw = z3.BitVec("clock", 64)
            clock = num(clock_raw)
            try:
                M, tv, data = run_program(items, frec)
            except (ReadError, RuntimeErr) as e:
                findings.append(dict(klass="program-unreadable", text="emitted program does not read/evaluate: %s" % e, guard=gg))
                continue
            info["programs"] += 1
            info["machine"] = M
            info["text"] = rope_text(items)
            reads = list(r.I.clock_reads)
            sem = findsem.Sem(frec, [num(t) for t in reads] if reads else clock)
            try:
                spec_tv = sem.eval(meaning if meaning is not None else tree, True)
            except findsem.Unsupported as e:
                raise Inconclusive("specification evaluator: %s" % e)
            iomap = iomap_of(ce)
            outs, problems = impl_outputs(M, iomap)
            for what, e in problems:
                findings.append(dict(klass="routing", text=what, guard=b_and(gg, e["guard"])))
            # the clock embedded in the program is the compile-time clock; files are not from the future
            A = list(frec.constraints()) + list(assume_extra)
            for t in reads or [clock_raw]:
                for a in ("atime", "ctime", "mtime"):
                    A.append(z3.ULE(frec.raw[a], t))
            A.append(b_not(sem.undefined) if sem.undefined is not False else True)
            A.append(gg)
            A.extend(DIVDEFS)          # definitions of the quotient variables (division lemma)
            info["assume"] = A
            checks = [("runtime-error", M.err), ("truth-value", z3.Xor(zb(tv), zb(spec_tv))), ("stop-request", z3.Xor(zb(M.stop), zb(sem.stop)))]
            # outputs: align the two ordered lists after dropping events that can never fire
            def live(lst):
                out = []
                for o in lst:
                    if o["guard"] is False:
                        continue
                    if o["guard"] is True:
                        out.append(o)
                        continue
                    res, _ = B.solve(label + ":event-live", A, o["guard"])
                    if res == z3.sat:
                        out.append(o)
                return out
            io, so = live(outs), live(sem.outputs)
            info["impl_outputs"], info["spec_outputs"] = io, so
            if len(io) != len(so):
                extra = (io[len(so):] if len(io) > len(so) else so[len(io):])[0]
                checks.append(("output-count(impl %d, spec %d)" % (len(io), len(so)), extra["guard"]))
            for k, (a, b) in enumerate(zip(io, so)):
                checks.append(("output[%d]-fires" % k, z3.Xor(zb(a["guard"]), zb(b["guard"]))))
                same_dest = dest_eq(a["dest"], b["dest"])
                same_term = (a["term"] == b["term"])
                content = b_and(same_dest, same_term, items_eq(a["payload"], b["payload"]))
                checks.append(("output[%d]-content" % k, b_and(a["guard"], b_not(content))))
            for cname, bad in checks:
                if bad is False:
                    continue
                res, m = B.solve("%s:%s" % (label, cname), A, bad, timeout_ms=120000)
                if res == z3.sat:
                    findings.append(dict(klass=cname.split("[")[0].split("(")[0], text="%s differs (%s)" % (cname, model_file(m, frec, clock)), guard=gg, model=m,
                                         detail=dict(impl=[show_out(o) for o in io], spec=[show_out(o) for o in so])))
                    break
    return findings, info


def dest_eq(x, y):
    """equality of two destinations as a guard: file names may hold symbolic characters"""
    if x is None or y is None:
        return x is y                 # an output whose tag has no table entry has no destination
    if x[0] != y[0]:
        return False
    if x[0] != "file":
        return x == y
    nx, ny = tuple(x[1]), tuple(y[1])
    if len(nx) != len(ny):
        return False
    g = True
    for p, q in zip(nx, ny):
        if isinstance(p, int) and isinstance(q, int):
            if p != q:
                return False
        elif is_sym(p) and is_sym(q) and p.eq(q):
            continue
        else:
            P = p if is_sym(p) else z3.BitVecVal(p, 32)
            Q = q if is_sym(q) else z3.BitVecVal(q, 32)
            g = b_and(g, P == Q)
    return g


def show_out(o):
    def it(x):
        return chr(x) if isinstance(x, int) and 32 <= x < 127 else repr(x) if not isinstance(x, int) else "\\x%02x" % x
    return "%s <- %s term=%r" % (o["dest"], "".join(it(x) for x in o["payload"])[:120], o["term"])


def model_file(m, frec, clock):
    parts = []
    for k, v in list(frec.raw.items())[:10]:
        val = m.eval(v, model_completion=False)
        if z3.is_bv_value(val):
            parts.append("%s=%s" % (k, val.as_long()))
    mv = m.eval(frec.mode, model_completion=False)
    if z3.is_bv_value(mv):
        parts.append("mode=%o" % mv.as_long())
    cv = m.eval(clock, model_completion=False)
    if z3.is_bv_value(cv):
        parts.append("clock=%s" % cv.as_long())
    return "file: " + " ".join(parts)
