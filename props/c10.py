# C10 -- output routing: mode choice and destination table.
# Action multisets (pairs / triples, sampled 4..6) from every output-producing action with file names from a
# small pool are embedded in and/or trees, compiled by the real code (MIR) and executed by Engine S:
#   * framed mode <=> some action writes to a file / is NUL terminated / is a printf not ending in "\n"
#     (rule evaluated on the tree by the specification), plain mode => io_map() is None
#   * framed: every byte inside a frame, tag is a key of the table, the entry names the destination and
#     terminator of the producing action (outputs compared with the specification for all files)
#   * equal (destination, terminator) pairs share one tag, different pairs never do.
import itertools, random, time
import z3
from .common import *
from .trees import *
from .semantics import compare, impl_outputs, iomap_of

PID = "C10"
DEVIATIONS = {"printfid-unframed": "-print-file-fid writes its line directly through the runtime, outside any frame, also in framed mode"}
ACTIONS = ["-print", "-print0", "-fprint A", "-fprint B", "-fprint0 A", "-printf 'x\\n'", "-printf 'x'", "-fprintf A 'y'",
           "-fprintf B 'y\\n'", "-print-file-fid", "-quit", "-printf 'x\\ny'", "-printf '\\n%p\\n'"]


def spec_framed(texts):
    """the rule of the property, on the action words"""
    for t in texts:
        if t.startswith(("-fprint", "-fprint0", "-fprintf", "-fls")):
            return True
        if t == "-print0":
            return True
        if t.startswith("-printf") and not t.rstrip("'").endswith("\\n"):
            return True
    return False


def run(ctx, rep, tier):
    B = Bench(ctx, rep)
    known = {k["class"] for k in vlib.known_for(PID)}
    T = Trees(B)
    rnd = random.Random(rep.seed)
    combos = [(a,) for a in ACTIONS] + list(itertools.product(ACTIONS, repeat=2))
    triples = list(itertools.product(ACTIONS, repeat=3))
    rnd.shuffle(triples)
    combos += triples[: (60 if tier == "quick" else 600)]
    for k in (4, 5, 6):
        for _ in range(5 if tier == "quick" else 40):
            combos.append(tuple(rnd.choice(ACTIONS) for _ in range(k)))
    samples, n = [], 0
    t0 = time.process_time()
    budget = 200 if tier == "quick" else 3000
    def examine(combo, tree, label):
        has_fid = "-print-file-fid" in combo
        framed_spec = spec_framed(combo)
        findings, info = compare(B, label, tree[0], tree[1])
        if info is None or not info.get("compiled"):
            findings.append(dict(klass="compile", text="does not compile"))
        else:
            r = info["run"]
            for g, v in r.alts:
                if is_ok(v):
                    for g2, ce in flatten_value(v.fields[0]):
                        io = iomap_of(ce)
                        if (io is not None) != framed_spec:
                            findings.append(dict(klass="mode", text="mode is %s but the rule says %s for %s" % ("framed" if io is not None else "plain", "framed" if framed_spec else "plain", list(combo))))
                        if io is not None:
                            # sharing: equal (dest, term) <=> same tag, over the outputs actually produced
                            outs = info.get("impl_outputs", [])
                            for a_, b_ in itertools.combinations(outs, 2):
                                if a_.get("tag") is None or b_.get("tag") is None:
                                    continue
                                same_pair = (a_["dest"], a_["term"]) == (b_["dest"], b_["term"])
                                if same_pair != (a_["tag"] == b_["tag"]):
                                    findings.append(dict(klass="sharing", text="tags %r/%r for pairs %r / %r" % (a_["tag"], b_["tag"], (a_["dest"], a_["term"]), (b_["dest"], b_["term"]))))
                            # direct runtime writes are outside frames
                            for o in outs:
                                if o.get("direct"):
                                    findings.append(dict(klass="unframed-direct-write", text="direct write %s in framed mode" % (o["payload"],)))
                            # the table has no entry that no action can produce
                            used = {o.get("tag") for o in outs}
                            for k_ in io:
                                if k_ not in used:
                                    findings.append(dict(klass="table", text="table entry %r -> %r is never produced" % (k_, io[k_])))
        seen = set()
        for f in findings:
            if f["klass"] in seen:
                continue
            seen.add(f["klass"])
            if f["klass"] == "unframed-direct-write" and has_fid and "printfid-unframed" in known:
                d = B.ctx.run_native_trees([tree[1]])[0]
                if "(print-file-fid)" in d.get("scheme", "") and d.get("iomap", "none") != "none":
                    rep.violation("printfid-unframed", DEVIATIONS["printfid-unframed"] + "; witness " + " ".join(combo), dict(sexpr=tree[1]))
                continue
            d = B.ctx.run_native_trees([tree[1]])[0]
            rep.violation("routing:" + f["klass"], "%s: %s; native io_map=%s" % (" ".join(combo), f["text"], d.get("iomap")),
                          dict(sexpr=tree[1], finding=f["text"], detail=f.get("detail"), native_iomap=d.get("iomap")))

    for combo in combos:
        if time.process_time() - t0 > budget:
            rep.coverage["truncated_after"] = n
            break
        # every action fires for some file: guard each by its own independent test, joined by ','-free ORs
        parts = []
        for i, a in enumerate(combo):
            leaf = T.leaf(a)
            if n % 3 == 0:
                parts.append(leaf)
            elif n % 3 == 1:
                parts.append(T.op("Or", T.leaf("-uid %d" % i), leaf))
            else:
                parts.append(T.op("And", T.leaf("-gid %d" % i), leaf))
        tree = parts[0]
        for p_ in parts[1:]:
            tree = T.op("List" if n % 2 else "And", tree, p_) if n % 3 != 2 else T.op("Or", T.op("And", tree, T.leaf("-false")), p_)
        label = "c%d" % n
        n += 1
        examine(combo, tree, label)
        if len(samples) < 6:
            samples.append(dict(actions=list(combo), framed=spec_framed(combo), tree=tree[1][:160]))
    # many distinct destinations / printers allocated late (tags of two hex digits and more, tag = separator byte, ...)
    def balanced(parts, opname):
        if len(parts) == 1:
            return parts[0]
        h = len(parts) // 2
        return T.op(opname, balanced(parts[:h], opname), balanced(parts[h:], opname))
    many = []
    for N in ((9, 17, 33) if tier == "quick" else (9, 17, 33, 70, 130, 300)):
        many.append(("dest%d" % N, ["-fprint F%d" % i for i in range(N)], "List"))
    for K in ((4, 15) if tier == "quick" else (4, 8, 15, 40, 126)):
        many.append(("match%d" % K, ["-name n%d" % i for i in range(K)] + ["-fprint A", "-fprint0 A", "-print0"], "Or"))
    for label, texts, opname in many:
        if time.process_time() - t0 > budget * 2:
            rep.coverage["many_truncated_at"] = label
            break
        leaves = [T.leaf(t) for t in texts]
        if opname == "Or":
            # matchers guard nothing: (m1 -o m2 ... ) , act1 , act2 ...
            nm = len([t for t in texts if t.startswith("-name")])
            tree = balanced([balanced(leaves[:nm], "Or")] + leaves[nm:], "List")
        else:
            tree = balanced(leaves, "List")
        examine(tuple(t for t in texts if not t.startswith("-name")), tree, label)
        n += 1
    n_names = symbolic_names(B, rep, tier)
    n_mode = mode_predicate(B, rep, 4 if tier == "quick" else 6)
    n_mode += options_independence(B, rep, T)
    cov = B.coverage_common()
    cov["symbolic_file_names"] = dict(obligations=n_names, explanation="file actions whose file name is 1, 2, 6 or 11 (thorough 1..16) arbitrary code points: the destination "
                                      "table must name exactly that file for every name (z3 over the name characters), alone and next to a "
                                      "second file action with a symbolic name (equal names share a tag, different names do not)")
    cov["mode_predicate"] = dict(obligations=n_mode, explanation="Expression::complex_frames executed symbolically (MIR) on -printf / -fprintf "
                                 "actions whose format is a list of 1..N symbolic elements (literal / field / escape, newline escape possible at "
                                 "every position), alone and under every operator next to an opaque sibling; z3 proves framed <=> the last "
                                 "element is not the newline escape (stdout) / always (file)")
    cov.update(explanation="action combinations (all singles and pairs of %d output actions, sampled triples and 4..6-tuples) embedded in "
               "and/or/',' trees, compiled by the real code (MIR), program executed on a symbolic file; z3 proves outputs "
               "(destination, bytes, terminator decoded through the frame tag and io_map) equal to the specification for all files; "
               "mode rule, table keys, sharing checked on every compiled program" % len(ACTIONS),
               bounds=dict(actions=ACTIONS, combos=n), samples=samples, programs=n, evaluations=n, distinct_nontrivial=n,
               many_destinations=[m[0] for m in many],
               outside="more than 33 (thorough: 300) distinct destinations; other file names")
    rep.coverage = cov
    rep.assumptions = ["runtime contract of DESIGN.md 2.3; the parent process adds the terminator recorded in io_map to framed records"]


def symbolic_names(B, rep, tier):
    """the destination table names exactly the file of the action, whatever characters the name holds"""
    n_ob = 0
    fmt = VecV([Adt("FormatElement", "Field", [Adt("FormatField", "Name")]), Adt("FormatElement", "Special", [Adt("FormatSpecial", "Newline")])])

    def act(kind, name_items):
        args = [StringV(name_items)] + ([fmt] if kind == "FilePrintFormatted" else [])
        return Adt("Expression", "Action", [Adt("Action", kind, args)])

    def both(a, b):
        return Adt("Expression", "Operator", [BoxV(Adt("Operator", "List", [a, b]), "Rc")])
    cases = []
    for kind in ("FilePrint", "FilePrintNull", "FilePrintFormatted"):
        # longer names too: a file name treated specially (`/dev/stdout` and the like) is found by the solver if it fits
        for k in ((1, 2, 6, 11) if tier == "quick" else range(1, 17)):
            cs = [sym_char() for _ in range(k)]
            cases.append(("%s[%d]" % (kind, k), act(kind, cs), [cs], [kind]))
    c1, c2 = [sym_char()], [sym_char()]
    cases.append(("FilePrint+FilePrint0", both(act("FilePrint", c1), act("FilePrintNull", c2)), [c1, c2], ["FilePrint", "FilePrintNull"]))
    c3, c4 = [sym_char()], [sym_char()]
    cases.append(("FilePrint+FilePrint", both(act("FilePrint", c3), act("FilePrint", c4)), [c3, c4], ["FilePrint", "FilePrint"]))
    cases.sort(key=lambda c_: sum(len(x) for x in c_[2]))
    for label, tree, names, kinds in cases:
        if any(v[0] == "routing:file-name" for v in rep.violations) and sum(len(x) for x in names) > 2:
            break              # already refuted on short names: the longer ones only look for names treated specially
        assume = [char_valid(c) for cs in names for c in cs]
        findings, info = compare(B, "names:" + label, tree, None, assume_extra=assume)
        n_ob += 1
        seen = set()
        for f in findings:
            if f["klass"] in seen:
                continue
            seen.add(f["klass"])
            m = f.get("model")
            if m is None:
                rep.inconclusive.append("symbolic file name finding without a model: %s" % f["text"][:120])
                continue
            texts = ["".join(chr(model_char(m, c)) for c in cs) for cs in names]

            def q(t):
                return '"%s"' % t.replace("\\", "\\\\").replace('"', '\\"')
            parts = []
            for kind, t in zip(kinds, texts):
                parts.append({"FilePrint": "(fprintf %s (field NameWithoutStartingPoint) (special Newline))", "FilePrintNull": "(fprintf %s (field NameWithoutStartingPoint) (special Null))",
                              "FilePrintFormatted": "(fprintf %s (field Name) (special Newline))"}[kind] % q(t))
            sx = parts[0] if len(parts) == 1 else "(list %s %s)" % tuple(parts)
            d = B.ctx.run_native_trees([sx])[0]
            io = d.get("iomap", "")
            if all(("File(%s" % json_debug(t)) in io for t in texts):
                rep.inconclusive.append("file-name witness %r (%s) does not reproduce natively: %s" % (texts, label, io[:120]))
                continue
            rep.violation("routing:file-name", "%s with file name(s) %r: %s; native io_map=%s" % (label, texts, f["text"][:160], io[:200]),
                          dict(sexpr=sx, finding=f["text"], native_iomap=io))
    return n_ob


def json_debug(t):
    """Rust's Debug rendering of a string (ASCII cases used in witnesses)"""
    out = '"'
    for ch in t:
        if ch in '"\\':
            out += "\\" + ch
        elif ch == "\n":
            out += "\\n"
        elif ch == "\t":
            out += "\\t"
        elif ch == "\r":
            out += "\\r"
        else:
            out += ch
    return out + '"'


def options_independence(B, rep, T):
    """the mode depends on the actions only: for every single action and symbolic run options (depth flag, thread count absent or any
    u32) the compiled expression is framed exactly when the rule says so"""
    n_ob = 0
    for a in ACTIONS:
        tree, sx = T.leaf(a)
        dep = z3.Bool("optdep_" + a)
        has = z3.Bool("opthas_" + a)
        thr = z3.BitVec("optthr_" + a, 32)
        opts = Struct("RunOptions", ("depth", "threads"), (dep, Union([(z3.Not(has), Adt("Option", "None")), (has, Adt("Option", "Some", [thr]))])))
        r = compile_tree(B, tree, opts)
        want = spec_framed([a])
        bad = False
        for g, v in r.alts:
            if isinstance(v, Panic) or not is_ok(v):
                bad = b_or(bad, g)
                continue
            for g2, ce in flatten_value(v.fields[0]):
                if (iomap_of(ce) is not None) != want:
                    bad = b_or(bad, b_and(g, g2))
        res, m = B.solve("mode-independent-of-options:%s" % a, list(r.assume), bad)
        n_ob += 1
        if res == z3.sat:
            text = a
            if z3.is_true(m.eval(has, model_completion=True)):
                text = "-threads %d %s" % (m.eval(thr, model_completion=True).as_long(), text)
            if z3.is_true(m.eval(dep, model_completion=True)):
                text = "-depth " + text
            d = B.ctx.run_native([text], "debug")[0]
            framed = d.get("iomap", "none") != "none"
            if d.get("compile") == "ok" and framed == want:
                rep.inconclusive.append("options witness %r does not reproduce natively" % text)
                continue
            rep.violation("routing:mode-depends-on-options", "%r: mode is %s (compile %s) but the rule, which looks at the actions only, says %s" % (
                text, "framed" if framed else "plain", d.get("compile"), "framed" if want else "plain"), dict(input=text, native=d))
    return n_ob


def mode_predicate(B, rep, nmax):
    """mode predicate over symbolic formats: framed <=> last element is not the newline escape, at every length 1..nmax
    (the empty format prints nothing and is not constrained)"""
    from . import c19
    n_ob = 0
    sib = c19.OpaqueExp("sib")
    for v in ("PrintFormatted", "FilePrintFormatted"):
        for n in range(1, nmax + 1):
            elems, ass, lastk = [], [], None
            for i in range(n):
                e, k, asm = c19.fmt_elem_union("m%s%d_%d" % (v[:2], n, i), B.engine("dev").P)
                elems.append(e)
                ass += asm
                lastk = k
            fmt = VecV(elems)
            leaf = Adt("Expression", "Action", [Adt("Action", v, [fmt] if v == "PrintFormatted" else [c19.opaque_str("file"), fmt])])
            spec = True if v == "FilePrintFormatted" else (lastk != 3)
            shapes = [("alone", leaf, spec)]
            if n <= 2:
                shapes += [("and-right", c19.op("And", sib, leaf), z3.Or(sib.cf, spec)), ("or-left", c19.op("Or", leaf, sib), z3.Or(sib.cf, spec)),
                           ("not", c19.op("Not", leaf), spec)]
            for shape, tree, sp in shapes:
                val, panic = c19.helper_run(B, "Expression::complex_frames", tree, ass)
                bad = b_or(panic, z3.Xor(c19.zb(val), c19.zb(sp)))
                res, m = B.solve("mode-predicate:%s[%d]:%s" % (v, n, shape), ass, bad)
                n_ob += 1
                if res == z3.sat:
                    sx = c19.sexpr_of(tree, m)
                    want = eval_guard(m, c19.zb(sp))
                    d = B.ctx.run_native_trees([sx])[0] if sx else {}
                    if sx and d.get("complex") == str(want).lower():
                        rep.inconclusive.append("mode-predicate counterexample %s does not reproduce natively" % sx)
                        continue
                    rep.violation("routing:mode-predicate", "%s: the mode predicate says %s, the rule says %s" % (sx, d.get("complex"), str(want).lower()),
                                  dict(sexpr=sx, finding="mode predicate", native_iomap=d.get("iomap")))
    return n_ob


def replay(ctx, path):
    import json
    rp = json.load(open(path))["replay"]
    d = ctx.run_native_trees([rp["sexpr"]])[0]
    print("tree=%s\niomap=%s\n%s\nfinding: %s" % (rp["sexpr"], d.get("iomap"), d.get("scheme", "")[-500:], rp.get("finding")))
    return 1
