# C11 -- generated identifiers: bound once, before use, never captured; identical requests share one
# resource, different requests never share.
# Expressions requesting k matchers/printers in varying first-occurrence orders (with repeats, case-only
# differences, pattern/literal pairs, and symbolic patterns whose equalities the solver decides) are compiled by
# the real code (MIR).  Each emitted program gets (1) a scope analysis over all let*/lambda binders,
# (2) the semantic comparison of C02 (every body reference must reach the matcher/printer created for that
# very request, otherwise truth values or outputs differ), (3) a count of distinct resources.
import itertools, random, time
import os
import z3
from .common import *
from .trees import *
from .semantics import compare, iomap_of
from scheme.reader import read_all, Sym, Str, ReadError

PID = "C11"
MATCHERS = ["-name foo", "-iname foo", "-name Foo", "-name 'f*'", "-iname 'f*'", "-path foo", "-ipath foo", "-name 123",
            "-iname 123", "-name '*.123'", "-iname '*.123'", "-path 'f*'"]
PRINTERS = ["-print", "-print0", "-printf 'x\\n'", "-printf 'x'", "-fprint A", "-fprint B", "-fprint0 A", "-fprintf A 'y'", "-fprintf B 'y'"]


def scope_analysis(data):
    """-> list of problems.  data: the two top-level forms"""
    problems = []
    if len(data) != 2 or not isinstance(data[1], list) or data[1][0] != Sym("let*"):
        return ["program is not (use-modules ..) (let* ..)"]
    bound = []

    def gen(n):
        return n.startswith("%lf3:")

    def walk(x, env):
        if isinstance(x, Sym):
            if gen(x.name) and x.name not in env:
                problems.append("use of %s before/without its binding" % x.name)
            return
        if not isinstance(x, list) or not x:
            return
        if x[0] == Sym("lambda"):
            params = [p.name for p in x[1]]
            for p in params:
                if gen(p) and p in env:
                    problems.append("lambda parameter %s captures an outer generated name" % p)
            e2 = set(env) | set(params)
            for b in x[2:]:
                walk(b, e2)
            return
        if x[0] == Sym("quote"):
            return
        for y in x:
            walk(y, env)

    env = set()
    for b in data[1][1]:
        name = b[0].name
        walk(b[1], env)
        if name in env:
            problems.append("%s is bound twice" % name)
        env.add(name)
        bound.append(name)
    for body in data[1][2:]:
        walk(body, env)
    return problems, bound


def request_key(text):
    """specification-side identity of the resource a primary needs"""
    w = text.split(None, 1)
    kw = w[0]
    arg = w[1].strip("'") if len(w) > 1 else None
    if kw in ("-name", "-path"):
        return ("match", arg, False)
    if kw in ("-iname", "-ipath"):
        return ("match", arg, True)
    if kw == "-print":
        return ("printer", "stdout", "\n")
    if kw == "-print0":
        return ("printer", "stdout", "\0")
    if kw == "-printf":
        return ("printer", "stdout", None)
    if kw == "-fprint":
        return ("printer", arg, "\n")
    if kw == "-fprint0":
        return ("printer", arg, "\0")
    if kw == "-fprintf":
        return ("printer", text.split()[1], None)
    return None


def run(ctx, rep, tier):
    B = Bench(ctx, rep)
    T = Trees(B)
    rnd = random.Random(rep.seed)
    seqs = [list(p) for p in itertools.permutations(MATCHERS, 2)] + [list(p) for p in itertools.product(PRINTERS, repeat=2)]
    seqs += [[m, p] for m in MATCHERS[:4] for p in PRINTERS[:4]] + [[p, m] for m in MATCHERS[:4] for p in PRINTERS[:4]]
    kmax = 6 if tier == "quick" else 10
    for _ in range(40 if tier == "quick" else 400):
        k = rnd.randint(3, kmax)
        pool = MATCHERS + PRINTERS
        seqs.append([rnd.choice(pool) for _ in range(k)])
    rnd.shuffle(seqs)
    # directed: the same request three times, alone and with another request between the second and third use
    directed = []
    for pool in (MATCHERS, PRINTERS):
        for i, x in enumerate(pool if tier != "quick" else pool[::2]):
            y = pool[(i + 1) % len(pool)]
            directed += [[x, x, x], [x, x, y, x], [x, y, x, y, x]]
    # many resources: every request of the vocabulary in one expression (matchers first, printers first, interleaved), and generated
    # families of distinct names/files, so that generated indices pass 9, 15 and (thorough) 31, 127
    inter = [x for pair in itertools.zip_longest(MATCHERS, PRINTERS) for x in pair if x]
    many = [MATCHERS + PRINTERS, PRINTERS + MATCHERS, inter]
    for nm, nf in ([(6, 12), (18, 3)] if tier == "quick" else [(6, 12), (18, 3), (20, 40), (70, 70)]):
        many.append(["-name n%d" % i for i in range(nm)] + ["-fprint F%d" % i for i in range(nf)] + ["-name n0", "-fprint F0", "-fprint F%d" % (nf - 1)])
    seqs = directed + many + seqs
    samples, n = [], 0
    t0 = time.process_time()
    budget = 220 if tier == "quick" else 3000
    for seq in seqs:
        if time.process_time() - t0 > budget:
            rep.coverage["truncated_after"] = n
            break
        leaves = [T.leaf(s) for s in seq]
        # matchers must all be evaluated and actions all reachable: OR-chain of (test) / AND for actions via ','
        tree = leaves[0]
        for i, l in enumerate(leaves[1:]):
            is_action = request_key(seq[i + 1])[0] == "printer"
            tree = T.op("List", T.op("Or", tree, T.leaf("-true")), l) if (n + i) % 2 else T.op("Or", T.op("And", tree, T.leaf("-false")), l)
        label = "p%d" % n
        n += 1
        findings, info = compare(B, label, tree[0], tree[1])
        if info and info.get("compiled"):
            try:
                data = read_all([ord(c) for c in info["text"]])
                probs, bound = scope_analysis(data)
                for p_ in probs:
                    findings.append(dict(klass="scope", text=p_))
                want_m = len({request_key(s) for s in seq if request_key(s)[0] == "match"})
                want_p = len({request_key(s) for s in seq if request_key(s)[0] == "printer"})
                got_m = len([b for b in bound if b.startswith("%lf3:match:")])
                got_p = len([b for b in bound if b.startswith("%lf3:print:")])
                if got_m != want_m:
                    findings.append(dict(klass="sharing", text="%d matcher bindings for %d distinct (pattern, case) requests" % (got_m, want_m)))
                if got_p != want_p:
                    findings.append(dict(klass="sharing", text="%d printer bindings for %d distinct (destination, terminator) requests" % (got_p, want_p)))
            except ReadError as e:
                findings.append(dict(klass="program-unreadable", text=str(e)))
        seen = set()
        for f in findings:
            if f["klass"] in seen or f["klass"] == "unframed-direct-write":
                continue
            seen.add(f["klass"])
            d = B.ctx.run_native_trees([tree[1]])[0]
            rep.violation("identifiers:" + f["klass"], "%s: %s" % (" | ".join(seq), f["text"]),
                          dict(sexpr=tree[1], finding=f["text"], detail=f.get("detail"), native_scheme=d.get("scheme", "")[:600]))
        if len(samples) < 5:
            samples.append(dict(requests=seq, bindings=(info or {}).get("text", "")[40:300]))
    # ---- symbolic patterns: the solver decides which requests coincide
    n_sym = symbolic_patterns(B, rep, T, tier)
    cov = B.coverage_common()
    cov.update(explanation="request sequences (all ordered pairs of %d matcher and %d printer requests, mixed pairs, %d random sequences of "
               "3..%d requests) compiled by the real code (MIR); per program: scope analysis of every binder/use, count of distinct "
               "resources vs distinct requests, and z3-decided semantic equivalence (each reference reaches the right resource); "
               "plus matcher requests with symbolic patterns (three of equal length; case-sensitive/-insensitive pairs of different lengths): every equality pattern decided by the solver"
               % (len(MATCHERS), len(PRINTERS), 40 if tier == "quick" else 400, kmax),
               bounds=dict(max_requests=kmax, programs=n, symbolic_partitions=n_sym), samples=samples, programs=n + n_sym,
               evaluations=n + n_sym, distinct_nontrivial=n + n_sym, outside="300 resources (not explored); patterns with quote/backslash (C04)")
    rep.coverage = cov


def symbolic_patterns(B, rep, T, tier):
    """matcher requests with symbolic patterns: the solver decides which requests coincide (forks on key equality inside the manager).
    (a) three requests of equal length over a 3-letter alphabet; (b) a case-sensitive and a case-insensitive request of DIFFERENT
    lengths over an alphabet with punctuation: two requests share a matcher only if pattern and case flag are both equal, whatever
    key encoding the manager uses"""
    from .semantics import compare as cmp
    total = 0
    ALPHA = "abi/.:_-+~"
    configs = [("eq3", [("Name", 2), ("InsensitiveName", 2), ("Name", 2)], "abc")]
    pairs = [(3, 1), (2, 1)] if tier == "quick" else [(2, 1), (3, 1), (4, 1), (4, 2), (5, 2)]
    for la, lb in pairs:
        configs.append(("len%d-%d" % (la, lb), [("Name", la), ("InsensitiveName", lb)], ALPHA))
        configs.append(("len%d-%d-rev" % (la, lb), [("InsensitiveName", lb), ("Name", la)], ALPHA))
        if tier != "quick" or (la, lb) == (3, 1):
            configs.append(("path%d-%d" % (la, lb), [("InsensitivePath", lb), ("Path", la)], ALPHA))
    # (c) two requests of the SAME kind and different lengths over the glob metacharacters: they can never be the same request,
    # whatever normal form (unescaping, case folding) the manager derives its cache key from
    GLOB = "a*?[\\"
    for la, lb in ([(3, 2), (2, 1)] if tier == "quick" else [(2, 1), (3, 2), (4, 2), (4, 3)]):
        configs.append(("glob%d-%d" % (la, lb), [("Name", la), ("Name", lb)], GLOB))
        configs.append(("glob%d-%d-rev" % (la, lb), [("Name", lb), ("Name", la)], GLOB))
        if tier != "quick" or (la, lb) == (3, 2):
            configs.append(("iglob%d-%d" % (la, lb), [("InsensitivePath", la), ("InsensitivePath", lb)], GLOB))
    if os.environ.get("VERIF_C11_ONLY"):
        configs = [c for c in configs if c[0].startswith(os.environ["VERIF_C11_ONLY"])]
    kw = {"Name": "-name", "InsensitiveName": "-iname", "Path": "-path", "InsensitivePath": "-ipath"}
    for label, reqs, alphabet in configs:
        pats, assume = [], []
        for kind, n in reqs:
            cs = [sym_char() for _ in range(n)]
            pats.append(cs)
            assume += [z3.Or(*[c == ord(x) for x in alphabet]) for c in cs]
        leaves = [Adt("Expression", "Test", [Adt("Test", k, [StringV(p)])]) for (k, _), p in zip(reqs, pats)]
        tree = leaves[0]
        for l in leaves[1:]:
            tree = Adt("Expression", "Operator", [BoxV(Adt("Operator", "Or", [tree, l]), "Rc")])
        if "glob" in label:
            total += distinct_matchers(B, rep, label, tree, pats, assume, [kw[k] for k, _ in reqs])
            continue
        findings, info = cmp(B, "sympat-" + label, tree, "(symbolic patterns %s)" % label, assume_extra=assume)
        total += (info or {}).get("programs", 0)
        for f in findings:
            m = f.get("model")
            if m is not None:
                ps = ["".join(chr(model_char(m, c)) for c in p) for p in pats]
                parts = ['(s "%s %s")' % (kw[k], p) for (k, _), p in zip(reqs, ps)]
                sx = parts[0]
                for p_ in parts[1:]:
                    sx = "(or %s %s)" % (sx, p_)
                d = B.ctx.run_native_trees([sx])[0]
                rep.violation("identifiers:symbolic:" + f["klass"], "patterns %r (%s): %s" % (ps, label, f["text"]), dict(sexpr=sx, finding=f["text"], native_scheme=d.get("scheme", "")[:500]))
            else:
                rep.violation("identifiers:symbolic:" + f["klass"], f["text"], dict(finding=f["text"]))
    return total


def distinct_matchers(B, rep, label, tree, pats, assume, kws):
    """two requests of the same kind whose patterns differ in length: the emitted program must bind two matchers and the two
    references must reach different ones -- for every value of the pattern characters (glob metacharacters included)"""
    r = compile_tree(B, tree)
    r.I.assumptions = list(assume)
    wrong, n_prog = False, 0
    for g, v in r.alts:
        if isinstance(v, Panic) or not is_ok(v):
            wrong = b_or(wrong, g)
            continue
        for g2, ce in flatten_value(v.fields[0]):
            for g3, items in render_alts(B, r, ce):
                gg = b_and(g, g2, g3)
                n_prog += 1
                try:
                    data = read_all(items)
                except ReadError:
                    wrong = b_or(wrong, gg)
                    continue
                probs, bound = scope_analysis(data)
                uses = set(u for u in sym_uses(data[-1]) if u.startswith("%lf3:match:"))
                if probs or len([b for b in bound if b.startswith("%lf3:match:")]) != 2 or len(uses) != 2:
                    wrong = b_or(wrong, gg)
    res, m = B.solve("sympat-%s:two-matchers" % label, assume, wrong)
    if res == z3.sat:
        ps = ["".join(chr(model_char(m, c)) for c in p) for p in pats]
        text = " -o ".join("%s '%s'" % (k, p) for k, p in zip(kws, ps))
        d = B.ctx.run_native([text], "debug")[0]
        import re as _re
        n_def = len(set(_re.findall(r"\(%lf3:match:(\d+) \(lambda", d.get("scheme", ""))))
        if d.get("scheme") and n_def == 2:
            rep.inconclusive.append("witness %r for shared matchers does not reproduce natively" % text)
        else:
            rep.violation("identifiers:symbolic:sharing", "%r: %d matcher definitions for two different patterns" % (text, n_def), dict(input=text, native_scheme=d.get("scheme", "")[:600]))
    return n_prog


def sym_uses(d):
    if isinstance(d, Sym):
        yield d.name
    elif isinstance(d, list):
        for x in d:
            yield from sym_uses(x)


def replay(ctx, path):
    import json
    rp = json.load(open(path))["replay"]
    if "input" in rp:
        d = ctx.run_native([rp["input"]], "debug")[0]
        print("input=%r\n%s" % (rp["input"], d.get("scheme", "")[:700]))
    elif "sexpr" in rp:
        d = ctx.run_native_trees([rp["sexpr"]])[0]
        print("tree=%s\n%s\nfinding: %s" % (rp["sexpr"], d.get("scheme", "")[:700], rp.get("finding")))
    return 1
