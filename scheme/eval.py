# Engine S, part 2: evaluation of an emitted policy program on a symbolic file record, under the
# modelled contract of the Guile/LiPE runtime (DESIGN.md 2.3).  Guards are z3 Bools; numbers are z3
# Ints (Guile integers do not wrap) except (mode), which is a 32-bit vector for logand.
import z3
from .reader import Sym, Str, Char, Num, read_all, ReadError, show
from mirsym.values import Seg, b_and, b_or, b_not, is_sym


class RuntimeErr(Exception):
    pass


# Numbers: Guile integers are unbounded.  Every quantity the generated code can form from 64-bit file
# attributes and 64-bit constants with one multiplication/addition fits in NW bits, so all arithmetic is done
# on signed NW-bit vectors, where it cannot wrap (keeps the queries in QF_BV, which z3 decides quickly).
NW = 136


DIVDEFS = []            # definitional constraints of the quotients introduced by udiv_const
_divmemo = {}


def udiv_const(a, d):
    """floor(a / d) for a non-negative NW-bit a and a positive constant d, as a fresh variable constrained by the
    division lemma a = q*d + r, 0 <= r < d (cheaper for the SAT back end than a division circuit); equal
    dividends share one quotient variable"""
    a = z3.simplify(num(a))
    if z3.is_bv_value(a):
        return num(a.as_long() // d)
    key = (a.get_id(), d)
    if key not in _divmemo:
        k = len(_divmemo)
        q = z3.BitVec("q%d_div%d" % (k, d), NW)
        r = z3.BitVec("r%d_div%d" % (k, d), NW)
        DIVDEFS.extend([a == q * num(d) + r, z3.ULT(r, num(d)), z3.ULE(q, a)])
        _divmemo[key] = (q, a)
    return _divmemo[key][0]


def reset_divdefs():
    del DIVDEFS[:]
    _divmemo.clear()


def const_of(x):
    x = z3.simplify(x)
    return x.as_long() if z3.is_bv_value(x) else None


def num(x):
    """int / z3 bit-vector of any width (unsigned) -> signed NW-bit vector"""
    if isinstance(x, int):
        return z3.BitVecVal(x, NW)
    if z3.is_bv(x):
        if x.size() == NW:
            return x
        if x.size() < NW:
            return z3.ZeroExt(NW - x.size(), x)
        return z3.Extract(NW - 1, 0, x)
    if z3.is_int(x):
        return z3.Int2BV(x, NW)
    raise RuntimeErr("not a number: %r" % (x,))


WILDCARDS = set(map(ord, "*?[\\"))


class FileRec:
    """symbolic file record"""
    INT_ATTRS = ["size", "blocks", "nlink", "ino", "uid", "gid", "projid", "atime", "ctime", "mtime",
                 "lov-stripe-count", "lov-stripe-size", "lov-mirror-count"]
    BOOL_ATTRS = ["empty", "executable", "readable", "writable"]
    STR_ATTRS = ["relative-path", "name", "absolute-path", "user", "group", "file-fid", "lipe-scan-client-mount-path"]

    def __init__(self, tag="f"):
        self.tag = tag
        self.raw = {a: z3.BitVec("%s_%s" % (tag, a.replace("-", "_")), 64) for a in self.INT_ATTRS}
        self.ints = {a: z3.ZeroExt(NW - 64, v) for a, v in self.raw.items()}
        self.bools = {a: z3.Bool("%s_%s" % (tag, a)) for a in self.BOOL_ATTRS}
        self.mode = z3.BitVec("%s_mode" % tag, 32)
        self.uf = {}

    def constraints(self):
        return []          # attributes are unsigned 64-bit quantities by construction

    def pred(self, name, *args):
        """uninterpreted predicate of the file (fnmatch on an opaque string, xattr presence...).
        args are reprs of structures or structures; symbolic characters inside them become arguments of
        an uninterpreted function, so that equal strings give equal truth values (congruence)"""
        terms = []

        def skel(x):
            if is_sym(x):
                terms.append(x)
                return "$%d" % x.size() if z3.is_bv(x) else "$"
            if isinstance(x, (tuple, list)):
                return "(" + ",".join(skel(y) for y in x) + ")"
            return repr(x)
        sk = tuple(skel(a) for a in args)
        key = (name,) + sk
        if not terms:
            if key not in self.uf:
                self.uf[key] = z3.Bool("%s_%s_%d" % (self.tag, name.replace("-", "_").replace("?", ""), len(self.uf)))
            return self.uf[key]
        if key not in self.uf:
            sorts = [t.sort() for t in terms] + [z3.BoolSort()]
            self.uf[key] = z3.Function("%s_%s_%d" % (self.tag, name.replace("-", "_").replace("?", ""), len(self.uf)), *sorts)
        return self.uf[key](*terms)


def V_int(t):
    return ("int", t)


def truth(v):
    if isinstance(v, tuple) and v[0] == "bool":
        return v[1]
    return True            # every Scheme value except #f is true


class Closure:
    def __init__(self, params, body, env):
        self.params, self.body, self.env = params, body, env


class Printer:
    """(make-printer port mutex term): the runtime's contract"""
    def __init__(self, port, mutex, term):
        self.port, self.mutex, self.term = port, mutex, term


class Machine:
    def __init__(self, frec, contract_attrs=None):
        self.f = frec
        self.events = []           # (guard, kind, port, payload items, extra)
        self.stop = False
        self.err = False           # guard under which a run-time error occurs
        self.err_why = []
        self.ports = {}            # port object id -> ('stdout',) | ('file', name items)
        self.nport = 0
        self.nmutex = 0
        self.scan = None           # (mdt, mount, thunk, attrs, threads)
        self.applied = set()       # names of all procedures applied
        self.closed = []

    # -------------------------------------------------------------- helpers
    def fail(self, g, why):
        self.err = b_or(self.err, g)
        self.err_why.append(why)

    def new_port(self, desc):
        self.nport += 1
        p = ("port", self.nport)
        self.ports[p] = desc
        return p

    def emit(self, g, kind, port, payload, extra=None, held=()):
        self.events.append(dict(guard=g, kind=kind, port=port, payload=list(payload), extra=extra, held=tuple(held)))

    def to_int(self, v, g, what):
        if isinstance(v, tuple) and v[0] in ("int", "bv"):
            return num(v[1])
        self.fail(g, "%s: not a number: %r" % (what, v))
        return num(0)

    # -------------------------------------------------------------- evaluation
    def eval(self, x, env, g, held=()):
        if x is True or x is False:
            return ("bool", x)
        if isinstance(x, Num):
            return V_int(num(x.value))
        if isinstance(x, Str):
            return ("str", list(x.items))
        if isinstance(x, Char):
            return ("char", x.cp)
        if isinstance(x, Sym):
            if x.name in env:
                return env[x.name]
            return ("prim", x.name)
        if not isinstance(x, list) or not x:
            raise RuntimeErr("cannot evaluate %r" % (x,))
        head = x[0]
        if isinstance(head, Sym):
            h = head.name
            if h == "quote":
                return ("quoted", x[1])
            if h == "lambda":
                return Closure([p.name for p in x[1]], x[2:], env)
            if h == "and":
                t = True
                last = ("bool", True)
                for e in x[1:]:
                    last = self.eval(e, env, b_and(g, t), held)
                    t = b_and(t, truth(last))
                return ("bool", t)
            if h == "or":
                if len(x) == 3 and isinstance(x[1], list) and x[1] and x[1][0] == Sym("xattr-ref-string") and isinstance(x[2], Str) and not x[2].items:
                    v = self.eval(x[1], env, g, held)
                    return ("xattr-or-empty", v[1])
                none_yet = True
                t = False
                for e in x[1:]:
                    v = self.eval(e, env, b_and(g, none_yet), held)
                    tv = truth(v)
                    t = b_or(t, b_and(none_yet, tv))
                    none_yet = b_and(none_yet, b_not(tv))
                return ("bool", t)
            if h == "not":
                v = self.eval(x[1], env, g, held)
                return ("bool", b_not(truth(v)))
            if h == "if":
                c = truth(self.eval(x[1], env, g, held))
                a = self.eval(x[2], env, b_and(g, c), held)
                b = self.eval(x[3], env, b_and(g, b_not(c)), held) if len(x) > 3 else ("bool", True)
                return ("bool", b_or(b_and(c, truth(a)), b_and(b_not(c), truth(b))))
            if h == "let*" or h == "let":
                e2 = dict(env)
                for name, val in x[1]:
                    e2[name.name] = self.eval(val, e2 if h == "let*" else env, g, held)
                r = ("bool", True)
                for b in x[2:]:
                    r = self.eval(b, e2, g, held)
                return r
            if h == "begin":
                r = ("bool", True)
                for b in x[1:]:
                    r = self.eval(b, env, g, held)
                return r
            if h == "with-mutex":
                m = self.eval(x[1], env, g, held)
                r = ("bool", True)
                for b in x[2:]:
                    r = self.eval(b, env, g, held + (m,))
                return r
            if h == "use-modules":
                return ("bool", True)
            if h == "dynamic-wind":
                before, thunk, after = [self.eval(a, env, g, held) for a in x[1:4]]
                self.apply(before, [], g, held)
                r = self.apply(thunk, [], g, held)
                self.apply(after, [], g, held)
                return r
        f = self.eval(head, env, g, held)
        args = [self.eval(a, env, g, held) for a in x[1:]]
        return self.apply(f, args, g, held)

    def apply(self, f, args, g, held=()):
        if isinstance(f, Closure):
            if len(args) != len(f.params):
                self.fail(g, "wrong number of arguments to lambda")
                return ("bool", True)
            e2 = dict(f.env)
            e2.update(zip(f.params, args))
            r = ("bool", True)
            for b in f.body:
                r = self.eval(b, e2, g, held)
            return r
        if isinstance(f, Printer):
            if len(args) != 1:
                self.fail(g, "printer arity")
                return ("bool", True)
            s = self.as_text(args[0], g, "printer argument")
            self.emit(g, "record", f.port, s, extra=f.term, held=held + (f.mutex,))
            return ("bool", True)
        if isinstance(f, tuple) and f[0] == "prim":
            self.applied.add(f[1])
            return self.prim(f[1], args, g, held)
        self.fail(g, "application of a non-procedure %r" % (f,))
        return ("bool", True)

    def as_text(self, v, g, what):
        if isinstance(v, tuple) and v[0] == "str":
            return v[1]
        if isinstance(v, tuple) and v[0] in ("attr", "strftime", "derived", "xattr-or-empty"):
            return [v]
        self.fail(g, "%s: not a string: %r" % (what, v))
        return []

    # -------------------------------------------------------------- primitives (runtime contract)
    def prim(self, name, args, g, held):
        f = self.f
        if name in f.ints and not args:
            return V_int(f.ints[name])
        if name in f.bools and not args:
            return ("bool", f.bools[name])
        if name == "mode" and not args:
            return ("int", num(f.mode))
        if name in ("relative-path", "absolute-path", "name", "user", "group", "file-fid", "lipe-scan-client-mount-path") and not args:
            return ("attr", name)
        if name == "type" and not args:
            return ("attr", "type")
        if name in ("=", "<", ">", "<=", ">="):
            if len(args) != 2:
                self.fail(g, name + " arity")
                return ("bool", False)
            a, b = args
            x, y = self.to_int(a, g, name), self.to_int(b, g, name)
            return ("bool", {"=": x == y, "<": x < y, ">": x > y, "<=": x <= y, ">=": x >= y}[name])
        if name in ("+", "-", "*"):
            vals = [self.to_int(a, g, name) for a in args]
            if name == "-" and len(vals) == 1:
                return V_int(-vals[0])
            acc = vals[0]
            for v in vals[1:]:
                acc = acc + v if name == "+" else acc - v if name == "-" else acc * v
            return V_int(acc)
        if name == "quotient":
            a, b = self.to_int(args[0], g, name), self.to_int(args[1], g, name)
            self.err = b_or(self.err, b_and(g, b == 0))
            d = const_of(b)
            if d is not None and 0 < d < (1 << 64):
                # quotient truncates toward zero
                return V_int(z3.If(a >= 0, udiv_const(a, d), -udiv_const(z3.If(a >= 0, num(0), -a), d)))
            return V_int(a / b)          # signed bit-vector division truncates toward zero, like quotient
        if name == "/":
            a, b = self.to_int(args[0], g, name), self.to_int(args[1], g, name)
            self.err = b_or(self.err, b_and(g, b == 0))
            if b_and(g, b == 0) is not False:
                self.err_why.append("division by a value that can be zero")
            return ("ratio", a, b)
        if name == "logand":
            a, b = args
            return ("int", self.to_int(a, g, name) & self.to_int(b, g, name))
        if name == "round-up-power-of-2":
            x, y = self.to_int(args[0], g, name), self.to_int(args[1], g, name)
            # least multiple of y that is >= x  (non-negative quantities)
            d = const_of(y)
            if d is not None and 0 < d < (1 << 64):
                return V_int(udiv_const(x + y - 1, d) * y)
            return V_int(z3.UDiv(x + y - 1, y) * y)
        if name in ("call-with-relative-path", "call-with-name"):
            attr = "relative-path" if name == "call-with-relative-path" else "name"
            return self.apply(args[0], [("attr", attr)], g, held)
        if name in ("streq?", "fnmatch?", "streq-ci?", "fnmatch-ci?"):
            pat, s = args
            key = ("str", tuple(pat[1])) if pat[0] == "str" else pat
            # contract: string equality coincides with fnmatch on patterns without the characters * ? [ \
            if name.startswith("streq") and pat[0] == "str" and not any(c in WILDCARDS for c in pat[1]):
                name = name.replace("streq", "fnmatch")
            return ("bool", f.pred(name, key, s))
        if name == "member":
            a0 = ("str", tuple(args[0][1])) if args[0][0] == "str" else args[0]
            return ("bool", f.pred("member", a0, args[1]))
        if name == "lov-pools" and not args:
            return ("attr", "lov-pools")
        if name == "xattr?":
            a0 = ("str", tuple(args[0][1])) if args[0][0] == "str" else args[0]
            return ("bool", f.pred("xattr?", a0))
        if name == "xattr-match?":
            a0 = ("str", tuple(args[0][1])) if args[0][0] == "str" else args[0]
            a1 = ("str", tuple(args[1][1])) if args[1][0] == "str" else args[1]
            return ("bool", f.pred("xattr-value-matches", a0, a1))
        if name == "xattr-ref-string":
            return ("xattr-ref", ("str", tuple(args[0][1])) if args[0][0] == "str" else args[0])
        if name == "equal?":
            a, b = args
            if a[0] == "xattr-ref" and b[0] == "str" and not any(c in WILDCARDS for c in b[1]):
                # contract: a literal value without * ? [ \ matches exactly itself
                return ("bool", f.pred("xattr-value-matches", a[1], ("str", tuple(b[1]))))
            return ("bool", f.pred("equal?", a, b))
        if name == "print-relative-path" and not args:
            self.emit(g, "direct", ("stdout",), [("attr", "relative-path")], extra=10, held=held)
            return ("bool", True)
        if name == "print-file-fid" and not args:
            self.emit(g, "direct", ("stdout",), [("attr", "file-fid")], extra=10, held=held)
            return ("bool", True)
        if name == "lipe-scan-break":
            self.stop = b_or(self.stop, g)
            return ("bool", True)
        if name == "current-output-port" and not args:
            return self.new_port(("stdout",))
        if name == "open-file":
            return self.new_port(("file", tuple(self.as_text(args[0], g, "open-file"))))
        if name == "close-port":
            self.closed.append(args[0])
            return ("bool", True)
        if name == "make-mutex" and not args:
            self.nmutex += 1
            return ("mutex", self.nmutex)
        if name == "make-printer":
            port, mutex, term = args
            t = None if term == ("bool", False) else term[1] if term[0] == "char" else "?"
            return Printer(port, mutex, t)
        if name == "display":
            v = args[0]
            port = args[1] if len(args) > 1 else ("stdout-default",)
            self.emit(g, "write", port, self.as_text(v, g, "display"), held=held)
            return ("bool", True)
        if name == "string":
            out = []
            for a in args:
                if a[0] != "char":
                    self.fail(g, "string: not a character")
                else:
                    out.append(a[1])
            return ("str", out)
        if name == "string-append":
            out = []
            for a in args:
                out += self.as_text(a, g, "string-append")
            return ("str", out)
        if name == "format":
            return self.format(args, g)
        if name == "strftime":
            fmt, t = args
            if fmt[0] == "str" and len(fmt[1]) == 2 and fmt[1][0] == 37 and t[0] == "localtime":
                for a in ("atime", "ctime", "mtime"):
                    if t[1][0] == "int" and t[1][1].eq(f.ints[a]):
                        return ("strftime", fmt[1][1], a)
            return ("attr", "strftime:" + repr(fmt) + ":" + repr(t))
        if name == "localtime":
            return ("localtime", args[0])
        if name == "type->char" and args and args[0] == ("attr", "type"):
            return ("derived", "Type")
        if name == "dirname" and args and args[0] == ("attr", "relative-path"):
            return ("derived", "Parents")
        if name in ("type->char", "dirname"):
            return ("attr", name + ":" + repr(args[0]))
        if name == "lipe-scan":
            if len(args) != 5:
                self.fail(g, "lipe-scan arity")
                return ("bool", True)
            self.scan = dict(mdt=args[0], mount=args[1], policy=args[2], attrs=args[3], threads=args[4])
            return ("bool", True)
        if name in ("lipe-getopt-client-mount-path", "lipe-getopt-required-attrs", "lipe-getopt-thread-count") and not args:
            return ("runtime-default", name)
        self.fail(g, "unknown procedure %s" % name)
        return ("bool", True)

    def format(self, args, g):
        if len(args) < 2 or args[0] != ("bool", False):
            self.fail(g, "format: destination must be #f")
            return ("str", [])
        tpl = args[1]
        if tpl[0] != "str":
            self.fail(g, "format: template is not a string")
            return ("str", [])
        rest = list(args[2:])
        out = []
        items = tpl[1]
        i = 0
        while i < len(items):
            c = items[i]
            if c == 126:       # ~
                if i + 1 >= len(items):
                    self.fail(g, "format: dangling ~")
                    break
                d = items[i + 1]
                i += 2
                if d == 126:
                    out.append(126)
                elif d == ord("%"):
                    out.append(10)
                elif isinstance(d, int) and chr(d) in "adofs":
                    if not rest:
                        self.fail(g, "format: missing argument for ~%s" % chr(d))
                        continue
                    a = rest.pop(0)
                    if chr(d) in "do" and a[0] not in ("int", "bv"):
                        self.fail(g, "format: ~%s of a non-number %r" % (chr(d), a))
                    if chr(d) == "f" and a[0] not in ("int", "bv", "ratio"):
                        self.fail(g, "format: ~f of a non-number")
                    out.append(("arg", chr(d), a))
                else:
                    self.fail(g, "format: unsupported directive ~%s" % (chr(d) if isinstance(d, int) else "?"))
            else:
                out.append(c)
                i += 1
        if rest:
            self.fail(g, "format: too many arguments")
        return ("str", out)


def _absdiv(a, b):
    aa = z3.If(a >= 0, a, -a)
    bb = z3.If(b >= 0, b, -b)
    return aa / bb


def run_program(items, frec):
    """read + evaluate an emitted program on one symbolic file record.
    returns (machine, truth of the policy body)"""
    data = read_all(items)
    if len(data) != 2:
        raise ReadError("expected two top-level forms, found %d" % len(data))
    M = Machine(frec)
    M.eval(data[0], {}, True)
    M.eval(data[1], {}, True)
    if M.scan is None:
        raise RuntimeErr("the program does not call lipe-scan")
    n0 = len(M.events)
    tv = truth(M.apply(M.scan["policy"], [], True))
    return M, tv, data
