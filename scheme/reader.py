# Engine S, part 1: an independent reader for the subset of Guile's lexical syntax the generator can
# emit (and that a hostile user string could turn the text into).  Input: a rope = sequence of items,
# each a code point (int) or a mirsym Seg (formatted number with symbolic value).  Output: data.
from mirsym.values import Seg


class ReadError(Exception):
    pass


class Sym:
    __slots__ = ("name",)

    def __init__(self, name):
        self.name = name

    def __repr__(self):
        return self.name

    def __eq__(self, o):
        return isinstance(o, Sym) and o.name == self.name

    def __hash__(self):
        return hash(("sym", self.name))


class Str:
    """string literal: decoded items (code points / Segs); `escaped` = indexes of symbolic characters that were written after a
    backslash (decoded as themselves: right exactly when the character is a double quote or a backslash)"""
    __slots__ = ("items", "span", "escaped")

    def __init__(self, items, span=None, escaped=()):
        self.items, self.span, self.escaped = list(items), span, set(escaped)

    def text(self):
        return "".join(chr(c) if isinstance(c, int) else "{%s}" % (c,) for c in self.items)

    def __repr__(self):
        return '"%s"' % self.text()


class Char:
    __slots__ = ("cp",)

    def __init__(self, cp):
        self.cp = cp

    def __repr__(self):
        return "#\\x%x" % self.cp if isinstance(self.cp, int) else "#\\x{%s}" % (self.cp,)


class Num:
    """number literal: value is an int or a symbolic term (from a Seg)"""
    __slots__ = ("value", "seg")

    def __init__(self, value, seg=None):
        self.value, self.seg = value, seg

    def __repr__(self):
        return str(self.value) if self.seg is None else "{%s}" % (self.seg,)


DELIMS = set(map(ord, " \t\r\n()\";"))
STRING_ESCAPES = {ord("\\"): 92, ord('"'): 34, ord("a"): 7, ord("b"): 8, ord("f"): 12, ord("n"): 10, ord("r"): 13,
                  ord("t"): 9, ord("v"): 11, ord("0"): 0}


sym_in_strings = []


def read_all(items):
    """read every top-level datum of the rope"""
    del sym_in_strings[:]
    items = list(items)
    pos = [0]
    n = len(items)

    def peek():
        return items[pos[0]] if pos[0] < n else None

    def skip_ws():
        while pos[0] < n:
            c = items[pos[0]]
            if isinstance(c, int) and c in (32, 9, 13, 10, 12):
                pos[0] += 1
            elif c == 59:          # ; comment
                while pos[0] < n and items[pos[0]] != 10:
                    pos[0] += 1
            else:
                break

    def read():
        skip_ws()
        if pos[0] >= n:
            raise ReadError("unexpected end of input")
        c = items[pos[0]]
        if isinstance(c, Seg):
            pos[0] += 1
            nxt = peek()
            if nxt is not None and not (isinstance(nxt, int) and nxt in DELIMS):
                raise ReadError("number placeholder glued to following text")
            if c.kind != "dec":
                raise ReadError("unexpected %s segment in code position" % c.kind)
            return Num(c.term, c)
        if not isinstance(c, int):
            raise ReadError("symbolic character in code position")
        if c == 40:
            pos[0] += 1
            out = []
            while True:
                skip_ws()
                if pos[0] >= n:
                    raise ReadError("unbalanced '('")
                if items[pos[0]] == 41:
                    pos[0] += 1
                    return out
                out.append(read())
        if c == 41:
            raise ReadError("unbalanced ')'")
        if c == 34:
            return read_string()
        if c == 39:
            pos[0] += 1
            return [Sym("quote"), read()]
        # atom
        st = pos[0]
        while pos[0] < n and not (isinstance(items[pos[0]], int) and items[pos[0]] in DELIMS):
            if not isinstance(items[pos[0]], int):
                raise ReadError("formatted segment inside an atom")
            pos[0] += 1
        tok = "".join(chr(x) for x in items[st:pos[0]])
        if tok.startswith("#\\"):
            # character: #\xHH, #\a (single char), named
            if pos[0] == st + 2 and pos[0] < n:
                # the delimiter itself is the character, e.g. #\( or #\space handled below
                pos[0] += 1
                return Char(items[pos[0] - 1])
            body = tok[2:]
            if len(body) == 1:
                return Char(ord(body))
            if body[0] == "x" and all(ch in "0123456789abcdefABCDEF" for ch in body[1:]):
                return Char(int(body[1:], 16))
            named = {"space": 32, "newline": 10, "nul": 0, "null": 0, "tab": 9, "return": 13, "delete": 127, "escape": 27,
                     "alarm": 7, "backspace": 8, "linefeed": 10, "page": 12}
            if body in named:
                return Char(named[body])
            raise ReadError("unknown character name #\\%s" % body)
        if tok in ("#t", "#true"):
            return True
        if tok in ("#f", "#false"):
            return False
        if tok.startswith("#o") and tok[2:] and all(ch in "01234567" for ch in tok[2:]):
            return Num(int(tok[2:], 8))
        if tok.startswith("#x") and tok[2:] and all(ch in "0123456789abcdefABCDEF" for ch in tok[2:]):
            return Num(int(tok[2:], 16))
        if tok.startswith("#"):
            raise ReadError("unsupported # syntax %r" % tok)
        t = tok[1:] if tok[:1] in "+-" and len(tok) > 1 else tok
        if t.isdigit() and t.isascii():
            return Num(int(tok))
        return Sym(tok)

    def read_string():
        start = pos[0]
        pos[0] += 1
        out = []
        esc_idx = []
        while True:
            if pos[0] >= n:
                raise ReadError("unterminated string literal")
            c = items[pos[0]]
            if isinstance(c, Seg):
                out.append(c)
                pos[0] += 1
                continue
            if not isinstance(c, int):
                # a symbolic character inside a string literal: taken as data; callers assume (and state) that it is
                # neither a double quote nor a backslash -- C04 decides what happens when it is
                out.append(c)
                sym_in_strings.append(c)
                pos[0] += 1
                continue
            if c == 34:
                pos[0] += 1
                return Str(out, (start, pos[0]), esc_idx)
            if c == 92:
                if pos[0] + 1 >= n:
                    raise ReadError("unterminated escape")
                e = items[pos[0] + 1]
                if not isinstance(e, int) and not isinstance(e, Seg):
                    # an escaped symbolic character: decoded as itself; the analysis (usertext) decides whether it can be anything
                    # but a double quote or a backslash
                    esc_idx.append(len(out))
                    out.append(e)
                    sym_in_strings.append(e)
                    pos[0] += 2
                    continue
                if not isinstance(e, int):
                    raise ReadError("non-literal escape")
                if e in STRING_ESCAPES:
                    out.append(STRING_ESCAPES[e])
                    pos[0] += 2
                    continue
                if e == ord("x"):
                    j = pos[0] + 2
                    hx = ""
                    while j < n and isinstance(items[j], int) and chr(items[j]) in "0123456789abcdefABCDEF":
                        hx += chr(items[j])
                        j += 1
                    if j < n and items[j] == 59 and hx:
                        out.append(int(hx, 16))
                        pos[0] = j + 1
                        continue
                    raise ReadError("malformed \\x escape")
                if e == 10:
                    pos[0] += 2
                    continue
                raise ReadError("illegal character in escape sequence: \\%s" % chr(e))
            out.append(c)
            pos[0] += 1

    data = []
    while True:
        skip_ws()
        if pos[0] >= n:
            return data
        data.append(read())


def show(d):
    if isinstance(d, list):
        return "(" + " ".join(show(x) for x in d) + ")"
    if d is True:
        return "#t"
    if d is False:
        return "#f"
    return repr(d)
