import json, sys
sys.path.insert(0, '/verif')
claimed = json.load(open('/verif/manifest_checks.json'))
props = [json.loads(l) for l in open('/verif/properties.jsonl')]
checks = []
na = []
for p in props:
    pid = p['id']
    c = claimed.get(pid)
    if c is None or c.get('na'):
        na.append(dict(property_id=pid, reason=(c or {}).get('na', 'check not built yet in this session (work in progress; see DESIGN.md section 3)')))
        continue
    d = dict(property_id=pid, quick_cmd="./check %s --tier quick" % pid, thorough_cmd="./check %s --tier thorough" % pid,
             evidence_file="evidence/%s.json" % pid, replay_cmd_template="./check %s --replay {path}" % pid,
             engine=c.get('engine', 'mirsym'),
             level_claimed=dict(category=c.get('category', 'other'), text=c['text'], design_ref=c.get('design_ref', 'DESIGN.md §3 ' + pid)),
             level_note=c['note'], technique=c['technique'])
    checks.append(d)
m = dict(version=1, setup_cmd="./setup.sh",
         hooks=dict(guard="kani", enable="no hook is committed to /repo: checks copy /repo's working tree to a scratch directory and append `#[cfg(kani)] mod verif_kani_*;` lines there (cargo kani sets cfg(kani)); Engine M reads the MIR of the unmodified tree",
                    baseline_off_cmd="cd /repo && cargo test --offline", source_commits=[], add_only=True),
         engines=[dict(name="mirsym", path="mirsym/", serves_properties=[c['property_id'] for c in checks if c['engine'] in ('mirsym', 'mirsym+kani')],
                       kind_free_text="symbolic interpreter of the crate's MIR (cargo +nightly rustc -Zunpretty=mir, regenerated per run) with winnow/std modelled; z3 decides the queries"),
                  dict(name="kani", path="kani/", serves_properties=[c['property_id'] for c in checks if 'kani' in c['engine']],
                       kind_free_text="Kani 0.68 / CBMC proof harnesses over the compiled crate (scratch copy)")],
         checks=checks, not_applicable=na,
         notes="exit 0 = held (known findings printed as KNOWN-FINDING), 1 = VIOLATION (natively replayed), 2 = inconclusive (never counted as success)")
json.dump(m, open('/verif/MANIFEST.json', 'w'), indent=1)
print(len(checks), 'claimed;', len(na), 'not applicable')
