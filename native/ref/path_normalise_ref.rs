use std::path::{Path, PathBuf};
fn main() {
    let alpha = ['/', '.', 'a', 'b'];
    let mut strs: Vec<String> = vec![String::new()];
    let mut frontier = vec![String::new()];
    for _ in 0..5 {
        let mut next = vec![];
        for s in &frontier { for c in alpha { let mut t = s.clone(); t.push(c); next.push(t); } }
        strs.extend(next.iter().cloned());
        frontier = next;
    }
    for a in &strs { let p: PathBuf = Path::new(a).components().collect(); println!("{}\t{}", a, p.to_string_lossy()); }
}
