use std::path::Path;
fn main() {
    let alpha = ['/', '.', 'a', 'b'];
    let mut strs: Vec<String> = vec![String::new()];
    let mut frontier = vec![String::new()];
    for _ in 0..4 {
        let mut next = vec![];
        for s in &frontier { for c in alpha { let mut t = s.clone(); t.push(c); next.push(t); } }
        strs.extend(next.iter().cloned());
        frontier = next;
    }
    for a in &strs { for b in &strs {
        if Path::new(a) == Path::new(b) && a != b { println!("{}\t{}", a, b); }
    } }
}
