// Native replay/validation driver (copied into a scratch copy of the repository as
// examples/verif_driver.rs by /verif/check; never committed to /repo).
//
// Protocol: one request per stdin line:  x<hex(utf8 input)> [x<hex(utf8 device path)>]
// One reply line per request: space separated key=hex(value) pairs.
#![allow(deprecated)]
use lipe_find_parser::ast::{
    Action, Expression as Exp, FormatElement, FormatField, FormatSpecial, GlobalOption, Operator as Ope,
    PositionalOption,
};
use lipe_find_parser::{compile, parse, RunOptions};
use std::rc::Rc;
use std::io::{BufRead, Write};
use std::panic::{catch_unwind, AssertUnwindSafe};
use std::time::{SystemTime, UNIX_EPOCH};

fn hex(s: &str) -> String {
    s.bytes().map(|b| format!("{:02x}", b)).collect()
}

fn unhex(s: &str) -> String {
    let s = &s[1..]; // every field is prefixed with 'x' so that the empty string is representable
    let b: Vec<u8> = (0..s.len() / 2)
        .map(|i| u8::from_str_radix(&s[2 * i..2 * i + 2], 16).unwrap())
        .collect();
    String::from_utf8(b).unwrap()
}

fn payload(e: Box<dyn std::any::Any + Send>) -> String {
    if let Some(s) = e.downcast_ref::<&str>() {
        s.to_string()
    } else if let Some(s) = e.downcast_ref::<String>() {
        s.clone()
    } else {
        String::from("?")
    }
}

fn now() -> u64 {
    SystemTime::now().duration_since(UNIX_EPOCH).unwrap().as_secs()
}

// ---------------------------------------------------------------------------------------------
// Tree requests:  T x<hex(s-expression)> [x<hex(device path)> [x<hex(further device path)>...]]   (further paths: rendered in order on
//                 the same compiled value, reported as hist1..hist4)
//   (and X Y) (or X Y) (list X Y) (not X) (prec X)      operator nodes
//   (s "find syntax")                                    the tree parse() returns for that text
//   (global-depth) (global-threads N) (global-maxdepth N) (global-mindepth N) (positional) (defaultprint)
//   (printf E...) (fprintf "file" E...)                  E = (lit "text") | (field Name ['c' | "s"]) | (special Name [N])
#[derive(Debug, Clone)]
enum Sx {
    Atom(String),
    Str(String),
    List(Vec<Sx>),
}

fn sx_parse(src: &[char], i: &mut usize) -> Result<Sx, String> {
    while *i < src.len() && src[*i].is_whitespace() {
        *i += 1;
    }
    if *i >= src.len() {
        return Err("eof".into());
    }
    match src[*i] {
        '(' => {
            *i += 1;
            let mut v = vec![];
            loop {
                while *i < src.len() && src[*i].is_whitespace() {
                    *i += 1;
                }
                if *i >= src.len() {
                    return Err("unclosed".into());
                }
                if src[*i] == ')' {
                    *i += 1;
                    return Ok(Sx::List(v));
                }
                v.push(sx_parse(src, i)?);
            }
        }
        '"' => {
            *i += 1;
            let mut out = String::new();
            while *i < src.len() && src[*i] != '"' {
                if src[*i] == '\\' && *i + 1 < src.len() {
                    *i += 1;
                }
                out.push(src[*i]);
                *i += 1;
            }
            *i += 1;
            Ok(Sx::Str(out))
        }
        _ => {
            let st = *i;
            while *i < src.len() && !src[*i].is_whitespace() && src[*i] != '(' && src[*i] != ')' {
                *i += 1;
            }
            Ok(Sx::Atom(src[st..*i].iter().collect()))
        }
    }
}

fn atom(s: &Sx) -> Result<&str, String> {
    match s {
        Sx::Atom(a) => Ok(a.as_str()),
        _ => Err(format!("atom expected: {:?}", s)),
    }
}

fn string(s: &Sx) -> Result<String, String> {
    match s {
        Sx::Str(a) => Ok(a.clone()),
        _ => Err(format!("string expected: {:?}", s)),
    }
}

fn field(name: &str, arg: Option<&Sx>) -> Result<FormatField, String> {
    use FormatField::*;
    let ch = || -> Result<char, String> { string(arg.ok_or("arg")?)?.chars().next().ok_or("char".to_string()) };
    Ok(match name {
        "Percent" => Percent, "Access" => Access, "AccessFormatted" => AccessFormatted(ch()?),
        "DiskSizeBlocks" => DiskSizeBlocks, "Change" => Change, "ChangeFormatted" => ChangeFormatted(ch()?),
        "Depth" => Depth, "DeviceNumber" => DeviceNumber, "Basename" => Basename, "FsType" => FsType,
        "Group" => Group, "GroupId" => GroupId, "Parents" => Parents, "StartingPoint" => StartingPoint,
        "InodeDecimal" => InodeDecimal, "DiskSizeKilos" => DiskSizeKilos, "SymbolicTarget" => SymbolicTarget,
        "PermissionsOctal" => PermissionsOctal, "PermissionsSymbolic" => PermissionsSymbolic,
        "Hardlinks" => Hardlinks, "Name" => Name, "NameWithoutStartingPoint" => NameWithoutStartingPoint,
        "DiskSizeBytes" => DiskSizeBytes, "Sparseness" => Sparseness, "Modify" => Modify,
        "ModifyFormatted" => ModifyFormatted(ch()?), "User" => User, "UserId" => UserId, "Type" => Type,
        "TypeSymlink" => TypeSymlink, "SecurityContext" => SecurityContext, "FileId" => FileId,
        "ProjectId" => ProjectId, "MirrorCount" => MirrorCount, "StripeCount" => StripeCount,
        "StripeSize" => StripeSize, "XAttr" => XAttr(string(arg.ok_or("arg")?)?),
        _ => return Err(format!("field {}", name)),
    })
}

fn special(name: &str, arg: Option<&Sx>) -> Result<FormatSpecial, String> {
    use FormatSpecial::*;
    Ok(match name {
        "Alarm" => Alarm, "Backspace" => Backspace, "Clear" => Clear, "Form" => Form, "Newline" => Newline,
        "CarriageReturn" => CarriageReturn, "TabHorizontal" => TabHorizontal, "TabVertical" => TabVertical,
        "Null" => Null, "Backslash" => Backslash,
        "Ascii" => Ascii(atom(arg.ok_or("arg")?)?.parse::<u16>().map_err(|e| e.to_string())?),
        _ => return Err(format!("special {}", name)),
    })
}

fn elems(v: &[Sx]) -> Result<Vec<FormatElement>, String> {
    let mut out = vec![];
    for e in v {
        if let Sx::List(l) = e {
            match atom(&l[0])? {
                "lit" => out.push(FormatElement::Literal(string(&l[1])?)),
                "field" => out.push(FormatElement::Field(field(atom(&l[1])?, l.get(2))?)),
                "special" => out.push(FormatElement::Special(special(atom(&l[1])?, l.get(2))?)),
                x => return Err(format!("element {}", x)),
            }
        } else {
            return Err("element list expected".into());
        }
    }
    Ok(out)
}

fn build(s: &Sx) -> Result<Exp, String> {
    let l = match s {
        Sx::List(l) if !l.is_empty() => l,
        _ => return Err(format!("list expected: {:?}", s)),
    };
    let op = |o: Ope| Exp::Operator(Rc::new(o));
    Ok(match atom(&l[0])? {
        "and" => op(Ope::And(build(&l[1])?, build(&l[2])?)),
        "or" => op(Ope::Or(build(&l[1])?, build(&l[2])?)),
        "list" => op(Ope::List(build(&l[1])?, build(&l[2])?)),
        "not" => op(Ope::Not(build(&l[1])?)),
        "prec" => op(Ope::Precedence(build(&l[1])?)),
        "s" => {
            let text = string(&l[1])?;
            let r = catch_unwind(AssertUnwindSafe(|| parse(text.as_str())));
            match r {
                Ok(Ok((_, e))) => e,
                Ok(Err(e)) => return Err(format!("leaf does not parse: {}", e)),
                Err(_) => return Err("leaf parse panicked".into()),
            }
        }
        "global-depth" => Exp::Global(GlobalOption::Depth),
        "global-threads" => Exp::Global(GlobalOption::Threads(atom(&l[1])?.parse().map_err(|_| "num")?)),
        "global-maxdepth" => Exp::Global(GlobalOption::MaxDepth(atom(&l[1])?.parse().map_err(|_| "num")?)),
        "global-mindepth" => Exp::Global(GlobalOption::MinDepth(atom(&l[1])?.parse().map_err(|_| "num")?)),
        "positional" => Exp::Positional(PositionalOption::XDev),
        "defaultprint" => Exp::Action(Action::DefaultPrint),
        "printf" => Exp::Action(Action::PrintFormatted(elems(&l[1..])?)),
        "fprintf" => Exp::Action(Action::FilePrintFormatted(string(&l[1])?, elems(&l[2..])?)),
        x => return Err(format!("node {}", x)),
    })
}

/// VERIF_DRIVER_SLEEP_MS: wait that long before every further rendering of a compiled value (replay of witnesses in which
/// time passes between two renderings)
fn pause() {
    if let Ok(v) = std::env::var("VERIF_DRIVER_SLEEP_MS") {
        if let Ok(ms) = v.parse::<u64>() {
            std::thread::sleep(std::time::Duration::from_millis(ms));
        }
    }
}

fn compile_report(exp: &Exp, opts: &RunOptions, mdt: &str, more: &[String], kv: &mut Vec<(&'static str, String)>) {
    let t0 = now();
    let compiled = catch_unwind(AssertUnwindSafe(|| compile(exp, opts)));
    let t1 = now();
    kv.push(("t0", t0.to_string()));
    kv.push(("t1", t1.to_string()));
    match compiled {
        Err(p) => {
            kv.push(("compile", "panic".into()));
            kv.push(("panic", payload(p)));
        }
        Ok(Err(e)) => {
            kv.push(("compile", "err".into()));
            kv.push(("cerr", e.to_string()));
        }
        Ok(Ok(c)) => {
            kv.push(("compile", "ok".into()));
            let s1 = catch_unwind(AssertUnwindSafe(|| c.scheme(mdt)));
            match s1 {
                Ok(s) => {
                    pause();
                    let s2 = c.scheme(mdt);
                    kv.push(("scheme", s.clone()));
                    kv.push(("again", (s == s2).to_string()));
                }
                Err(p) => kv.push(("panic", payload(p))),
            }
            // further device paths: rendered on the SAME compiled value, in order (render histories)
            const HIST: [&str; 4] = ["hist1", "hist2", "hist3", "hist4"];
            for (i, m) in more.iter().take(4).enumerate() {
                pause();
                match catch_unwind(AssertUnwindSafe(|| c.scheme(m.as_str()))) {
                    Ok(s) => kv.push((HIST[i], s)),
                    Err(p) => kv.push(("panic", payload(p))),
                }
            }
            match c.io_map() {
                None => kv.push(("iomap", "none".into())),
                Some(m) => {
                    let mut v: Vec<_> = m.into_iter().collect();
                    v.sort_by_key(|(k, _)| *k);
                    kv.push(("iomap", format!("{:?}", v)));
                }
            }
        }
    }
}

fn main() {
    std::panic::set_hook(Box::new(|_| {}));
    let stdin = std::io::stdin();
    let stdout = std::io::stdout();
    let mut out = stdout.lock();
    for line in stdin.lock().lines() {
        let line = line.unwrap();
        let mut it = line.split_whitespace();
        let mut first = it.next().unwrap_or("x");
        let mut kv: Vec<(&str, String)> = vec![];
        if first == "T" {
            let sx = unhex(it.next().unwrap_or("x"));
            let mdt = it.next().map(unhex).unwrap_or(String::from("/"));
            let chars: Vec<char> = sx.chars().collect();
            let mut i = 0;
            match sx_parse(&chars, &mut i).and_then(|s| build(&s)) {
                Err(e) => kv.push(("build", e)),
                Ok(exp) => {
                    kv.push(("build", "ok".into()));
                    kv.push(("tree", format!("{:?}", exp)));
                    match catch_unwind(AssertUnwindSafe(|| (exp.action(), exp.complex_frames()))) {
                        Ok((a, c)) => {
                            kv.push(("action", a.to_string()));
                            kv.push(("complex", c.to_string()));
                        }
                        Err(p) => kv.push(("panic", payload(p))),
                    }
                    let more: Vec<String> = it.map(unhex).collect();
                    compile_report(&exp, &RunOptions::default(), mdt.as_str(), &more, &mut kv);
                }
            }
            let reply: Vec<String> = kv.iter().map(|(k, v)| format!("{}={}", k, hex(v))).collect();
            writeln!(out, "{}", reply.join(" ")).unwrap();
            continue;
        }
        if first == "P" {
            first = it.next().unwrap_or("x");
        }
        let input = unhex(first);
        let mdt = it.next().map(unhex).unwrap_or(String::from("/"));
        let more: Vec<String> = it.map(unhex).collect();
        let parsed = catch_unwind(AssertUnwindSafe(|| parse(input.as_str())));
        match parsed {
            Err(p) => {
                kv.push(("parse", "panic".into()));
                kv.push(("panic", payload(p)));
            }
            Ok(Err(e)) => {
                kv.push(("parse", "err".into()));
                let txt = catch_unwind(AssertUnwindSafe(|| e.to_string()));
                match txt {
                    Ok(t) => kv.push(("err", t)),
                    Err(p) => kv.push(("panic", payload(p))),
                }
            }
            Ok(Ok((opts, exp))) => {
                kv.push(("parse", "ok".into()));
                kv.push(("opts", format!("{:?}", opts)));
                kv.push(("tree", format!("{:?}", exp)));
                kv.push(("action", exp.action().to_string()));
                kv.push(("complex", exp.complex_frames().to_string()));
                compile_report(&exp, &opts, mdt.as_str(), &more, &mut kv);
            }
        }
        let reply: Vec<String> = kv.iter().map(|(k, v)| format!("{}={}", k, hex(v))).collect();
        writeln!(out, "{}", reply.join(" ")).unwrap();
    }
}
