// Native replay/validation driver (copied into a scratch copy of the repository as
// examples/verif_driver.rs by /verif/check; never committed to /repo).
//
// Protocol: one request per stdin line:  x<hex(utf8 input)> [x<hex(utf8 device path)>]
// One reply line per request: space separated key=hex(value) pairs.
use lipe_find_parser::{compile, parse};
use std::io::{BufRead, Write};
use std::panic::{catch_unwind, AssertUnwindSafe};
use std::time::{SystemTime, UNIX_EPOCH};

fn hex(s: &str) -> String {
    s.bytes().map(|b| format!("{:02x}", b)).collect()
}

fn unhex(s: &str) -> String {
    let s = &s[1..]; // every field is prefixed with 'x' so that the empty string is representable
    let b: Vec<u8> = (0..s.len() / 2)
        .map(|i| u8::from_str_radix(&s[2 * i..2 * i + 2], 16).unwrap())
        .collect();
    String::from_utf8(b).unwrap()
}

fn payload(e: Box<dyn std::any::Any + Send>) -> String {
    if let Some(s) = e.downcast_ref::<&str>() {
        s.to_string()
    } else if let Some(s) = e.downcast_ref::<String>() {
        s.clone()
    } else {
        String::from("?")
    }
}

fn now() -> u64 {
    SystemTime::now().duration_since(UNIX_EPOCH).unwrap().as_secs()
}

fn main() {
    std::panic::set_hook(Box::new(|_| {}));
    let stdin = std::io::stdin();
    let stdout = std::io::stdout();
    let mut out = stdout.lock();
    for line in stdin.lock().lines() {
        let line = line.unwrap();
        let mut it = line.split_whitespace();
        let input = unhex(it.next().unwrap_or("x"));
        let mdt = it.next().map(unhex).unwrap_or(String::from("/"));
        let mut kv: Vec<(&str, String)> = vec![];
        let parsed = catch_unwind(AssertUnwindSafe(|| parse(input.as_str())));
        match parsed {
            Err(p) => {
                kv.push(("parse", "panic".into()));
                kv.push(("panic", payload(p)));
            }
            Ok(Err(e)) => {
                kv.push(("parse", "err".into()));
                let txt = catch_unwind(AssertUnwindSafe(|| e.to_string()));
                match txt {
                    Ok(t) => kv.push(("err", t)),
                    Err(p) => kv.push(("panic", payload(p))),
                }
            }
            Ok(Ok((opts, exp))) => {
                kv.push(("parse", "ok".into()));
                kv.push(("opts", format!("{:?}", opts)));
                kv.push(("tree", format!("{:?}", exp)));
                let t0 = now();
                let compiled = catch_unwind(AssertUnwindSafe(|| compile(&exp, &opts)));
                let t1 = now();
                kv.push(("t0", t0.to_string()));
                kv.push(("t1", t1.to_string()));
                match compiled {
                    Err(p) => {
                        kv.push(("compile", "panic".into()));
                        kv.push(("panic", payload(p)));
                    }
                    Ok(Err(e)) => {
                        kv.push(("compile", "err".into()));
                        kv.push(("cerr", e.to_string()));
                    }
                    Ok(Ok(c)) => {
                        kv.push(("compile", "ok".into()));
                        let s1 = catch_unwind(AssertUnwindSafe(|| c.scheme(mdt.as_str())));
                        match s1 {
                            Ok(s) => {
                                let s2 = c.scheme(mdt.as_str());
                                kv.push(("scheme", s.clone()));
                                kv.push(("again", (s == s2).to_string()));
                            }
                            Err(p) => kv.push(("panic", payload(p))),
                        }
                        match c.io_map() {
                            None => kv.push(("iomap", "none".into())),
                            Some(m) => {
                                let mut v: Vec<_> = m.into_iter().collect();
                                v.sort_by_key(|(k, _)| *k);
                                kv.push(("iomap", format!("{:?}", v)));
                            }
                        }
                    }
                }
            }
        }
        let reply: Vec<String> = kv.iter().map(|(k, v)| format!("{}={}", k, hex(v))).collect();
        writeln!(out, "{}", reply.join(" ")).unwrap();
    }
}
