# Engine M core: symbolic interpreter for the crate's MIR (see DESIGN.md 2.2).
# Control flow forks at switchInt/assert on symbolic scalars; all paths of one call are merged
# again at return (guarded unions), panics propagate as separate outcomes.
import os, re, sys, time
import z3
from .mirparse import (parse_mir, match_close, scan, split_top, Place, Operand, Const, INT_TYPES, Func)
from .values import *


class Unsupported(Exception):
    """construct outside the modelled subset -> the query is inconclusive, never 'holds'"""


class BudgetExceeded(Unsupported):
    """a loop of the crate ran past the engine's budget on this path; `pc` is the path condition at that point, so that a
    check can ask the solver for an input on this path and see whether the native build terminates on it"""
    def __init__(self, msg, pc=()):
        Unsupported.__init__(self, msg)
        self.pc = tuple(pc)


class PanicExc(Exception):
    def __init__(self, msg, site=None):
        self.msg, self.site = msg, site


class Outcomes:
    """multi-outcome result of an intrinsic: [(guard, value | Panic)]"""

    def __init__(self, alts):
        self.alts = alts


# --------------------------------------------------------------------------- paths
class Path:
    __slots__ = ("qself", "trait", "segs", "text")

    def __init__(self, qself, trait, segs, text):
        self.qself, self.trait, self.segs, self.text = qself, trait, segs, text

    def names(self):
        return [n for n, _ in self.segs]

    def last(self):
        return self.segs[-1][0]

    def generics(self, i=-1):
        return self.segs[i][1]

    def __repr__(self):
        return self.text


_path_cache = {}


def top_as(s):
    """index of the top-level ' as ' inside a qualified-self '<X as T>' body"""
    i = 0
    idx = None
    while True:
        j = scan(s, i, " ", angle=True)
        if j >= len(s):
            return idx
        if s.startswith(" as ", j):
            idx = j
        i = j + 1


def parse_path(s):
    p = _path_cache.get(s)
    if p is not None:
        return p
    text = s
    qself = trait = None
    i = 0
    segs = []
    s = s.strip()
    if s.startswith("<") and not s.startswith("<impl "):
        e = match_close(s, 0, angle=True)
        inner = s[1:e]
        k = top_as(inner)
        if k is None:
            qself = inner.strip()
        else:
            qself, trait = inner[:k].strip(), inner[k + 4:].strip()
        i = e + 1
        if s.startswith("::", i):
            i += 2
    n = len(s)
    while i < n:
        if s[i] == "<":
            # '<impl Foo>' segment or generic args '::<...>' (the '::' was consumed)
            e = match_close(s, i, angle=True)
            body = s[i:e + 1]
            is_gen = body.startswith(("<impl Fn", "<impl for<")) or len(split_top(body[1:-1])) > 1
            if body.startswith("<impl ") and not (is_gen and segs):
                segs.append((body, []))
            else:
                if not segs:
                    raise Unsupported("path " + text)
                segs[-1] = (segs[-1][0], split_top(body[1:-1]))
            i = e + 1
        elif s[i] == "{":
            e = match_close(s, i, angle=False)
            segs.append((s[i:e + 1], []))
            i = e + 1
        else:
            j = i
            while j < n and (s[j].isalnum() or s[j] in "_[]'") and not s.startswith("::", j):
                j += 1
            if j == i:
                raise Unsupported("path %r at %d" % (text, i))
            segs.append((s[i:j], []))
            i = j
        if s.startswith("::", i):
            i += 2
        elif i < n:
            raise Unsupported("path %r at %d" % (text, i))
    p = Path(qself, trait, segs, text)
    _path_cache[text] = p
    return p


def strip_generics(s):
    out = []
    i = 0
    while i < len(s):
        if s.startswith("::<", i):
            i = match_close(s, i + 2, angle=True) + 1
            continue
        out.append(s[i])
        i += 1
    return "".join(out)


def short_type(t):
    """normalise a type string: drop module paths and lifetimes: 'ast::Comparison<ast::Size>' -> 'Comparison<Size>'"""
    t = t.strip()
    t = re.sub(r"'\w+\s*", "", t)
    t = re.sub(r"\bfor<[^>]*>\s*", "", t)
    t = re.sub(r"(?:[A-Za-z_]\w*::)+(?=[A-Za-z_<{])", "", t)
    t = re.sub(r"\s+", " ", t)
    t = t.replace("std::", "")
    return t


def type_head(t):
    """'Result<Size, E>' -> 'Result'"""
    t = short_type(t)
    m = re.match(r"[&\s]*(?:mut\s+)?(?:dyn\s+)?([A-Za-z_]\w*)", t)
    return m.group(1) if m else t


def subst_env(text, env):
    if not env:
        return text
    for k, v in env.items():
        text = re.sub(r"(?<![\w:])%s(?![\w])" % re.escape(k), v.replace("\\", "\\\\"), text)
    return text


# --------------------------------------------------------------------------- program
class Program:
    """parsed MIR + indexes derived from it and from the crate's source"""

    def __init__(self, mir_text, repo_dir):
        self.funcs = parse_mir(mir_text)
        self.repo = repo_dir
        self._src = {}
        self._resolve_cache = {}
        self.closure_by_span = {}
        self.impl_info = {}       # span -> dict(trait, self_ty, generics)
        self.inherent = {}        # (TypeHead, rest) -> func name
        self.trait_impls = {}     # (TraitHead, rest) -> [(self_ty_pattern, generics, func name)]
        self.const_index = {}     # last segment -> [func]
        self.fn_generics = {}     # fn def name -> [param names]
        self.enum_variants = {}   # enum short name -> [variant names]
        self.struct_fields = {}   # struct short name -> [field names]
        self.variant_field_types = {}
        self.variant_has_fields = {("Option", "Some"): True, ("Result", "Ok"): True, ("Result", "Err"): True,
                                   ("ErrMode", "Backtrack"): True, ("ErrMode", "Cut"): True, ("ErrMode", "Incomplete"): True,
                                   ("StrContext", "Label"): True, ("StrContext", "Expected"): True,
                                   ("StrContextValue", "Description"): True, ("StrContextValue", "CharLiteral"): True,
                                   ("StrContextValue", "StringLiteral"): True, ("ControlFlow", "Continue"): True,
                                   ("ControlFlow", "Break"): True}
        self._index()

    def src_line(self, file, line):
        if file not in self._src:
            p = os.path.join(self.repo, file)
            self._src[file] = open(p).read().split("\n") if os.path.exists(p) else None
        ls = self._src[file]
        if ls is None or line - 1 >= len(ls):
            return None
        return ls[line - 1]

    def _index(self):
        span_re = re.compile(r"<impl at ([^:>]+):(\d+):(\d+): (\d+):(\d+)>")
        for name, f in self.funcs.items():
            if f.kind == "fn" and f.args:
                t = f.args[0][1]
                m = re.search(r"\{closure@[^}]*\}", t)
                if m and "{closure#" in name.split("::")[-1]:
                    self.closure_by_span.setdefault(m.group(0), name)
            last = name.split("::")[-1]
            self.const_index.setdefault(last, []).append(f)
            m = span_re.search(name)
            if m:
                file, line, col = m.group(1), int(m.group(2)), int(m.group(3))
                span = m.group(0)
                info = self.impl_info.get(span)
                if info is None:
                    info = self.impl_info[span] = self._impl_header(file, line, col)
                rest = name[m.end():]
                if rest.startswith("::"):
                    rest = rest[2:]
                if info is None:
                    continue
                if info["trait"] == "Error" and info.get("derive") and rest == "fmt":
                    # thiserror: #[derive(Error)] generates the Display impl from the #[error("..")] attributes
                    self.trait_impls.setdefault(("Display", rest), []).append((info["self_ty"], info["generics"], name, False, "Display"))
                elif info["trait"]:
                    self.trait_impls.setdefault((info["trait"], rest), []).append((info["self_ty"], info["generics"], name, bool(info.get("derive")), info.get("trait_full") or info["trait"]))
                else:
                    self.inherent[(type_head(info["self_ty"]), rest)] = name
        self._scan_source()

    def _impl_header(self, file, line, col):
        if file.startswith("/"):
            return None
        src = self.src_line(file, line)
        if src is None:
            return None
        text = src[col - 1:]
        if not text.lstrip().startswith("impl"):
            # a derive: `#[derive(Debug, Clone, PartialEq)]`; col points at the trait name
            m = re.match(r"([A-Za-z_]\w*)", text)
            if not m:
                return None
            trait = m.group(1)
            k = line
            while True:
                l = self.src_line(file, k + 1)
                if l is None:
                    return None
                mm = re.match(r"\s*(?:pub(?:\([^)]*\))?\s+)?(?:enum|struct)\s+(\w+)(<[^>]*>)?", l)
                if mm:
                    gens = [g.strip().split(":")[0] for g in (mm.group(2) or "<>")[1:-1].split(",") if g.strip()]
                    ty = mm.group(1) + ("<%s>" % ", ".join(gens) if gens else "")
                    return dict(trait=trait, self_ty=ty, generics=gens, derive=True)
                k += 1
        # gather until '{'
        k = line
        while "{" not in text and k < line + 6:
            k += 1
            text += " " + (self.src_line(file, k) or "")
        text = text.split("{")[0]
        m = re.match(r"\s*impl\s*(<[^>]*>)?\s*(.*)$", text)
        gens = [g.strip().split(":")[0].strip() for g in (m.group(1) or "<>")[1:-1].split(",") if g.strip()]
        body = m.group(2)
        body = re.split(r"\bwhere\b", body)[0].strip()
        if " for " in body:
            tr, ty = body.split(" for ", 1)
            return dict(trait=type_head(tr), self_ty=short_type(ty), generics=gens, derive=False, trait_full=short_type(tr))
        return dict(trait=None, self_ty=short_type(body), generics=gens, derive=False)

    def _scan_source(self):
        """enum variant order, struct field order and generic parameter lists, read from the source"""
        src_root = os.path.join(self.repo, "src")
        for d, _, fs in os.walk(src_root):
            for fn in fs:
                if not fn.endswith(".rs"):
                    continue
                text = open(os.path.join(d, fn)).read()
                text_nc = re.sub(r"//[^\n]*", "", text)
                for m in re.finditer(r"\benum\s+(\w+)\s*(?:<[^>]*>)?\s*\{", text_nc):
                    e = match_close(text_nc, m.end() - 1, angle=False)
                    body = text_nc[m.end():e]
                    vs = []
                    for part in split_top(body):
                        part = re.sub(r"#\[[^\]]*\]", "", part).strip()
                        part = re.sub(r"^///[^\n]*\n", "", part).strip()
                        mm = re.match(r"(\w+)", part)
                        if mm:
                            vs.append(mm.group(1))
                            rest_ = part[mm.end():].lstrip()
                            self.variant_has_fields[(m.group(1), mm.group(1))] = rest_.startswith(("(", "{"))
                            if rest_.startswith("("):
                                self.variant_field_types[(m.group(1), mm.group(1))] = [x.strip() for x in split_top(rest_[1:match_close(rest_, 0, angle=True)])]
                    self.enum_variants[m.group(1)] = vs
                for m in re.finditer(r"\bstruct\s+(\w+)\s*(?:<[^>]*>)?\s*\{", text_nc):
                    e = match_close(text_nc, m.end() - 1, angle=False)
                    body = text_nc[m.end():e]
                    fsn = []
                    for part in split_top(body):
                        part = re.sub(r"#\[[^\]]*\]", "", part).strip()
                        mm = re.match(r"(?:pub(?:\([^)]*\))?\s+)?(\w+)\s*:", part)
                        if mm:
                            fsn.append(mm.group(1))
                    self.struct_fields[m.group(1)] = fsn
                for m in re.finditer(r"\bfn\s+(\w+)\s*<([^>]*)>", text_nc):
                    ps = [p.strip().split(":")[0].strip() for p in m.group(2).split(",") if p.strip() and not p.strip().startswith("'")]
                    self.fn_generics.setdefault(m.group(1), ps)
        self.enum_variants.update({
            "Option": ["None", "Some"], "Result": ["Ok", "Err"], "ErrMode": ["Incomplete", "Backtrack", "Cut"],
            "StrContext": ["Label", "Expected"], "StrContextValue": ["CharLiteral", "StringLiteral", "Description"],
            "ControlFlow": ["Continue", "Break"], "Ordering": ["Less", "Equal", "Greater"],
            "LevelFilter": ["Off", "Error", "Warn", "Info", "Debug", "Trace"],
            "Level": ["_", "Error", "Warn", "Info", "Debug", "Trace"],
            "Needed": ["Unknown", "Size"],
        })

    # ------------------------------------------------------------------ resolution
    def resolve_fn(self, path, env=None, handwritten_only=False):
        """Path -> (Func, env') for crate functions, or None when the callee is external"""
        ck = (path.text, handwritten_only)
        if ck in self._resolve_cache:
            r = self._resolve_cache[ck]
            return None if r is None else (r[0], dict(r[1]))
        r = self._resolve_fn(path, env, handwritten_only)
        self._resolve_cache[ck] = r
        return None if r is None else (r[0], dict(r[1]))

    def _resolve_fn(self, path, env=None, handwritten_only=False):
        text = strip_generics(path.text)
        f = self.funcs.get(text)
        if f is not None and f.kind == "fn":
            return f, self._bind(f, path, -1)
        names = path.names()
        if path.qself is not None and path.trait is not None:
            rest = "::".join(names)
            cands = self.trait_impls.get((type_head(path.trait), rest))
            if cands:
                want = short_type(path.qself)
                hits = []
                for pat, gens, fname, derived, tfull in cands:
                    if derived and handwritten_only:
                        continue
                    b = unify_type(pat, want, gens)
                    if b is not None:
                        hits.append((fname, b, tfull))
                if len(hits) > 1:
                    wt = short_type(path.trait)
                    exact = [h for h in hits if h[2].replace(" ", "") == wt.replace(" ", "")]
                    if exact:
                        hits = exact
                if hits:
                    return self.funcs[hits[0][0]], hits[0][1]
            return None
        if len(names) >= 2:
            ty = names[-2]
            if ty.startswith("<impl "):
                ty = ty[6:-1]
            # closures / nested items: method path may be longer; try the 2..3 segment suffixes
            for k in (2, 3, 4):
                if len(names) >= k:
                    tyk = names[-k]
                    if tyk.startswith("<impl "):
                        tyk = tyk[6:-1]
                    fname = self.inherent.get((type_head(tyk), "::".join(names[-k + 1:])))
                    if fname:
                        f = self.funcs[fname]
                        b = self._bind(f, path, -1)
                        gens_impl = path.generics(-k)
                        info = None
                        for span, inf in self.impl_info.items():
                            if inf and span in fname:
                                info = inf
                        if info and info["generics"] and gens_impl:
                            b.update(dict(zip(info["generics"], [short_type(g) for g in gens_impl])))
                        return f, b
        # free functions printed with trimmed paths: unique suffix match
        suffix = "::" + text
        hits = [f for n, f in self.funcs.items() if f.kind == "fn" and (n == text or n.endswith(suffix) or text.endswith("::" + n))]
        if len(hits) == 1:
            return hits[0], self._bind(hits[0], path, -1)
        return None

    def _bind(self, f, path, seg):
        gens = path.generics(seg)
        base = f.name.split("::")[-1]
        ps = self.fn_generics.get(base)
        if gens and ps and len(ps) == len(gens):
            return dict(zip(ps, [short_type(g) for g in gens]))
        return {}

    def find_const(self, text, cur_fn):
        """named constant / static / promoted referenced from cur_fn"""
        if "::promoted[" in text:
            k = text.index("::promoted[")
            name = cur_fn.name + text[k:]
            return self.funcs.get(name)
        t = strip_generics(text)
        f = self.funcs.get(t)
        if f is not None:
            return f
        last = t.split("::")[-1]
        cands = [c for c in self.const_index.get(last, []) if c.kind in ("const", "static")]
        if len(cands) == 1:
            return cands[0]
        if len(cands) > 1:
            # disambiguate by the owning type, e.g. permission_flags::Mode::S_IRWXU -> const ...: Mode
            segs = t.split("::")
            owner = segs[-2] if len(segs) > 1 else None
            hit = [c for c in cands if short_type(c.ret) == owner or c.name.endswith("::".join(segs[-2:]))]
            if len(hit) >= 1:
                return hit[0]
            hit = [c for c in cands if "<impl" not in c.name]
            if len(hit) == 1:
                return hit[0]
        return None

    def variant_index(self, enum, variant):
        vs = self.enum_variants.get(enum)
        if vs is None or variant not in vs:
            raise Unsupported("variant index of %s::%s" % (enum, variant))
        return vs.index(variant)

    def variant_name(self, enum, idx):
        vs = self.enum_variants.get(enum)
        if vs is None or idx >= len(vs):
            raise Unsupported("variant %d of %s" % (idx, enum))
        return vs[idx]


def unify_type(pat, ty, gens):
    """match a normalised impl self type pattern (with generic params `gens`) against a concrete
    normalised type; returns the binding dict or None"""
    pat, ty = pat.strip(), ty.strip()
    if pat in gens:
        return {pat: ty}
    if not gens:
        return {} if pat == ty or pat.replace(" ", "") == ty.replace(" ", "") else None
    # structural: Head<args>
    mp = re.match(r"([^<]+)<(.*)>$", pat)
    mt = re.match(r"([^<]+)<(.*)>$", ty)
    if mp and mt and mp.group(1).strip() == mt.group(1).strip():
        pa, ta = split_top(mp.group(2)), split_top(mt.group(2))
        if len(pa) != len(ta):
            return None
        b = {}
        for x, y in zip(pa, ta):
            r = unify_type(x, y, gens)
            if r is None:
                return None
            b.update(r)
        return b
    return {} if pat == ty else None


# --------------------------------------------------------------------------- path state
class St:
    __slots__ = ("store", "pc")

    def __init__(self, store=None, pc=()):
        self.store = store if store is not None else {}
        self.pc = pc

    def fork(self, g=None):
        return St(dict(self.store), self.pc + ((g,) if g is not None and g is not True else ()))


class Frame:
    _n = 0
    __slots__ = ("fn", "fid", "env")

    def __init__(self, fn, env):
        Frame._n += 1
        self.fn, self.fid, self.env = fn, Frame._n, env


class Interp:
    def __init__(self, program, profile="dev"):
        self.P = program
        self.profile = profile
        self.intrinsics = {}
        self.solver = z3.Solver()
        self.stats = dict(calls=0, forks=0, checks=0, merges=0, fns=set(), intrinsics=set())
        self.const_cache = {}
        self.depth = 0
        self.memo = {}
        self.trace = bool(os.environ.get("MIRSYM_TRACE"))
        self.assumptions = []          # global facts about the symbolic inputs (z3 Bools)
        self.definitions = []          # defining equations of named intermediate values (added to final queries only)
        self.n_defs = 0
        self.no_merge = False          # pure path forking (used where merged states would need unions of maps)
        self.hash_order = None         # None: order-sensitive use of a HashMap iterator is unsupported; 'fwd'/'rev'/'rot': that order
        self.nondet_reads = []         # reads of process-specific values (pid, ...)
        self.clock_reads = []          # symbolic instants returned by SystemTime::now(), in call order
        self.global_cells = {}         # mutable statics
        self.fn_hooks = {}             # crate fn name -> hook(I, args, st) -> value | None (inductive hypotheses)
        from . import stdmodel, winnow
        stdmodel.register(self)
        winnow.register(self)

    # ------------------------------------------------------------------ feasibility
    def feasible(self, pc, g=None):
        cs = [c for c in pc if c is not True]
        if g is not None:
            g = b_simpl(g)
            if g is False:
                return False
            if g is not True:
                cs.append(g)
        if not cs:
            return True
        self.stats["checks"] += 1
        r = self.solver.check(*(list(self.assumptions) + cs))
        return r != z3.unsat

    # ------------------------------------------------------------------ entry
    def call(self, name_or_path, args, st=None, env=None):
        """call a crate function by (call-site style) name; returns [(St, value|Panic)]"""
        st = st or St()
        path = parse_path(name_or_path) if isinstance(name_or_path, str) else name_or_path
        r = self.P.resolve_fn(path, env)
        if r is None:
            raise Unsupported("no such crate function: %s" % name_or_path)
        f, b = r
        return self.call_fn(f, args, st, b)

    # ------------------------------------------------------------------ function execution
    def call_fn(self, fn, args, st, env):
        """execute fn on args; merge all returning paths into one outcome; panics stay separate.
        returns [(St, value|Panic)]"""
        self.stats["calls"] += 1
        self.stats["fns"].add(fn.name)
        hk = self.fn_hooks.get(fn.name)
        if hk is not None:
            r = hk(self, args, st)
            if r is not None:
                return [(st, r)]
        self.depth += 1
        if self.depth > 2500:
            raise Unsupported("call depth > 2500 in %s" % fn.name)
        try:
            paths = self.exec_fn(fn, args, st, env)
        finally:
            self.depth -= 1
        normal = [(s, v) for s, v in paths if not isinstance(v, Panic)]
        panics = [(s, v) for s, v in paths if isinstance(v, Panic)]
        out = []
        if len(normal) == 1 or self.no_merge:
            out.extend(normal)
        elif normal:
            out.append(self.merge_paths(st, normal))
        out.extend(panics)
        return out

    def merge_paths(self, st0, paths):
        """merge several paths that all extend st0 into one state + value"""
        self.stats["merges"] += 1
        n0 = len(st0.pc)
        guards = [b_and(*s.pc[n0:]) for s, _ in paths]
        val = merge_many([(g, v) for g, (s, v) in zip(guards, paths)])
        keys = set()
        for s, _ in paths:
            keys.update(s.store.keys())
        store = {}
        for k in keys:
            if k not in st0.store and k[0] not in ("heap", "static"):
                continue          # frame cells created by the callee are dead after return (heap cells survive)
            vals = [s.store.get(k) for s, _ in paths]
            v0 = vals[0]
            if all(v is v0 for v in vals):
                store[k] = v0
            elif any(v is None for v in vals):
                live = [(g, v) for g, v in zip(guards, vals) if v is not None]
                store[k] = merge_many(live) if live else None      # allocated on some paths only
            else:
                store[k] = merge_many(list(zip(guards, vals)))
        # the merged path condition: st0.pc plus the disjunction of the path guards
        disj = b_or(*guards)
        pc = st0.pc + ((disj,) if disj is not True else ())
        return St(store, pc), val

    def exec_fn(self, fn, args, st, env):
        if not fn.blocks:
            if fn.const_value is not None:
                fr = Frame(fn, env)
                return [(st, self.eval_operand(fn.const_value, fr, st))]
            raise Unsupported("no body for " + fn.name)
        fr = Frame(fn, env or {})
        st = st.fork()
        if len(args) != len(fn.args):
            raise Unsupported("arity mismatch calling %s: %d vs %d" % (fn.name, len(args), len(fn.args)))
        for (n, _), a in zip(fn.args, args):
            st.store[(fr.fid, n)] = a
        work = [(st, 0)]
        done = []
        steps = 0
        visits = {}
        while work:
            st, bb = work.pop()
            while True:
                steps += 1
                if steps > 3000000:
                    raise BudgetExceeded("step budget exceeded in " + fn.name, st.pc)
                nv = visits.get(bb, 0) + 1
                visits[bb] = nv
                if nv > 4000:
                    # one basic block entered 4000 times in one activation (inputs of the checks are at most ~1100 characters / 300 resources)
                    raise BudgetExceeded("step budget exceeded in %s (block bb%s entered %d times in one activation)" % (fn.name, bb, nv), st.pc)
                blk = fn.blocks[bb]
                try:
                    for s in blk.stmts:
                        self.exec_stmt(s, fr, st)
                    nxt = self.exec_term(blk.term, fr, st, fn, bb)
                except PanicExc as p:
                    done.append((st, Panic(p.msg, p.site or "%s:bb%d" % (fn.name, bb))))
                    break
                # nxt: ('goto', bb) | ('return', value) | ('fork', [(st, bb)]) | ('panic', Panic) | ('paths', [(st, bb|Panic)])
                k = nxt[0]
                if k == "goto":
                    bb = nxt[1]
                    continue
                if k == "return":
                    done.append((st, nxt[1]))
                    break
                if k == "paths":
                    for s2, t in nxt[1]:
                        if isinstance(t, Panic):
                            done.append((s2, t))
                        else:
                            work.append((s2, t))
                    break
                raise AssertionError(k)
        # drop this frame's cells
        fid = fr.fid
        for s, _ in done:
            for key in [k for k in s.store if k[0] == fid]:
                del s.store[key]
        return done

    # ------------------------------------------------------------------ places
    def place_type(self, pl, fr):
        if pl.proj:
            for p in reversed(pl.proj):
                if p[0] == "field":
                    return p[2]
                if p[0] == "deref":
                    break
            if pl.proj == (("deref",),):
                t = fr.fn.locals.get(pl.local, "")
                return re.sub(r"^&\s*(mut\s+)?", "", subst_env(t, fr.env))
            return None
        return subst_env(fr.fn.locals.get(pl.local), fr.env)

    def zst_local(self, n, fr, st):
        t = subst_env(fr.fn.locals.get(n, ""), fr.env)
        v = self.value_from_zst_type(t, fr.env)
        if isinstance(v, Opaque):
            if t.strip() == "()":
                v = ()
            else:
                raise Unsupported("read of uninitialised _%d: %s in %s" % (n, t[:80], fr.fn.name))
        st.store[(fr.fid, n)] = v
        return v

    def read_place(self, pl, fr, st):
        key = (fr.fid, pl.local)
        if key not in st.store:
            self.zst_local(pl.local, fr, st)
        v = st.store[key]
        for p in pl.proj:
            v = self.project(v, p, fr, st)
        return v

    def project(self, v, p, fr, st):
        k = p[0]
        if isinstance(v, Union):
            if k == "downcast":
                alts = []
                for g, x in v.alts:
                    if isinstance(x, Adt) and x.variant == p[1]:
                        alts.append((g, x))
                    elif isinstance(x, (BoxV, ValRef, Ref)):
                        raise Unsupported("downcast through pointer union")
                if not alts:
                    raise Unsupported("downcast %s on %r" % (p[1], v))
                return mk_union(alts)
            return merge_many([(g, self.project(x, p, fr, st)) for g, x in v.alts])
        if k == "deref":
            if isinstance(v, (SliceV, StrSlice)):
                return v
            if isinstance(v, ValRef):
                return v.v
            if isinstance(v, BoxV):
                return v.v
            if isinstance(v, HeapBox):
                return st.store[v.key]
            if isinstance(v, Ref):
                return self.read_ref(v, st)
            raise Unsupported("deref of %r" % (v,))
        if k == "field":
            n = p[1]
            if isinstance(v, tuple):
                return v[n]
            if isinstance(v, (Adt, Struct)):
                if n >= len(v.fields):
                    raise Unsupported("field %d of %r" % (n, v))
                return v.fields[n]
            if isinstance(v, Closure):
                return v.captures[n]
            if isinstance(v, (BoxV, HeapBox)) and n == 0:
                return v
            raise Unsupported("field %d of %r (%s)" % (n, v, type(v).__name__))
        if k == "box":
            return v.v
        if k == "downcast":
            if isinstance(v, Adt):
                if v.variant != p[1]:
                    raise Unsupported("downcast %s of %r" % (p[1], v))
                return v
            raise Unsupported("downcast of %r" % (v,))
        if k == "index":
            i = st.store[(fr.fid, p[1])]
            return self.index_value(v, i)
        if k == "constindex":
            items = self.seq_items(v)
            return items[-p[1]] if p[2] else items[p[1]]
        if k == "subslice":
            sv = v if isinstance(v, SliceV) else SliceV(self.seq_items(v))
            return sv.sub(p[1], len(sv) - p[2] if p[3] else p[2])
        raise Unsupported("projection %r" % (p,))

    def seq_items(self, v):
        if isinstance(v, SliceV):
            return v.elems()
        if isinstance(v, VecV):
            return v.items
        if isinstance(v, tuple):
            return v
        raise Unsupported("not a sequence: %r" % (v,))

    def index_value(self, v, i):
        items = self.seq_items(v)
        if isinstance(i, int):
            if i >= len(items):
                raise PanicExc("index out of bounds")
            return items[i]
        return merge_many([(i == k, x) for k, x in enumerate(items)])

    def read_ref(self, r, st):
        if r.key not in st.store:
            raise Unsupported("dangling ref %r" % (r,))
        v = st.store[r.key]
        for p in r.path:
            v = self.project(v, p, None, st)
        return v

    def resolve(self, pl, fr, st):
        """place -> (key, path) of the store cell it designates, following &mut pointers"""
        key = (fr.fid, pl.local)
        if key not in st.store and not pl.proj:
            self.zst_local(pl.local, fr, st)
        path = ()
        for p in pl.proj:
            if p[0] == "deref":
                cur = st.store[key]
                for q in path:
                    cur = self.project(cur, q, fr, st)
                if isinstance(cur, Ref):
                    key, path = cur.key, cur.path
                    continue
                if isinstance(cur, BoxV):
                    path = path + (("box",),)
                    continue
                if isinstance(cur, HeapBox):
                    if st.store.get(cur.key) is None:
                        # writes through the raw pointer of an uninitialised box (vec! lowering): the
                        # MaybeUninit / ManuallyDrop / MaybeDangling wrapper fields are transparent
                        return cur.key, ()
                    key, path = cur.key, ()
                    continue
                if isinstance(cur, ValRef):
                    raise Unsupported("write through shared reference in " + fr.fn.name)
                raise Unsupported("deref-resolve of %r" % (cur,))
            if p[0] == "index":
                i = st.store[(fr.fid, p[1])]
                if not isinstance(i, int):
                    raise Unsupported("symbolic index in lvalue")
                path = path + (("constindex", i, False),)
                continue
            path = path + (p,)
        return key, path

    def write_place(self, pl, val, fr, st):
        if not pl.proj:
            st.store[(fr.fid, pl.local)] = val
            return
        if (fr.fid, pl.local) not in st.store and pl.proj[0][0] == "field":
            # aggregate initialised field by field
            t = subst_env(fr.fn.locals.get(pl.local, ""), fr.env).strip()
            if t.startswith("(") and t.endswith(")"):
                st.store[(fr.fid, pl.local)] = tuple([None] * len(split_top(t[1:-1])))
            else:
                raise Unsupported("field-wise initialisation of " + t[:80])
        key, path = self.resolve(pl, fr, st)
        self.write_cell(key, path, val, st)

    def write_cell(self, key, path, val, st):
        if not path:
            st.store[key] = val
            return
        st.store[key] = self.updated(st.store.get(key), path, val)

    def updated(self, v, path, val):
        if not path:
            return val
        p, rest = path[0], path[1:]
        k = p[0]
        if isinstance(v, Union):
            if k == "downcast":
                return mk_union([(g, self.updated(x, path, val) if isinstance(x, Adt) and x.variant == p[1] else x) for g, x in v.alts])
            return merge_many([(g, self.updated(x, path, val)) for g, x in v.alts])
        if k == "field":
            n = p[1]
            if isinstance(v, tuple):
                return v[:n] + (self.updated(v[n], rest, val),) + v[n + 1:]
            if isinstance(v, Adt):
                f = list(v.fields)
                f[n] = self.updated(f[n], rest, val)
                return Adt(v.ty, v.variant, f)
            if isinstance(v, Struct):
                f = list(v.fields)
                f[n] = self.updated(f[n], rest, val)
                return Struct(v.ty, v.names, f)
            if isinstance(v, Closure):
                c = list(v.captures)
                c[n] = self.updated(c[n], rest, val)
                return Closure(v.span, c, v.env)
            if v is None:
                raise Unsupported("field write into uninitialised value")
            raise Unsupported("field write into %r" % (v,))
        if k == "downcast":
            return self.updated(v, rest, val)
        if k == "box":
            return BoxV(self.updated(v.v, rest, val), v.kind)
        if k == "constindex":
            items = list(self.seq_items(v))
            i = -p[1] if p[2] else p[1]
            items[i] = self.updated(items[i], rest, val)
            if isinstance(v, VecV):
                return VecV(items)
            if isinstance(v, tuple):
                return tuple(items)
        raise Unsupported("write path %r into %r" % (p, v))

    # ------------------------------------------------------------------ operands / constants
    def eval_operand(self, op, fr, st):
        if op.kind in ("copy", "move"):
            return self.read_place(op.place, fr, st)
        return self.eval_const(op.const, fr, st)

    def eval_const(self, c, fr, st):
        k = c.kind
        if k == "int":
            return c.value
        if k in ("bool",):
            return c.value
        if k == "char":
            return c.value
        if k == "str":
            return static_str(c.value)
        if k == "unit":
            return ()
        if k == "tuple":
            return tuple(self.eval_const(x, fr, st) for x in c.value)
        if k == "struct":
            path, fields = c.value
            name = parse_path(subst_env(path, fr.env)).names()[-1]
            vals = {n: self.eval_const(x, fr, st) for n, x in fields if not n in ("i", "o", "o2", "e", "e2", "c")}
            from .winnow import P
            kinds = {"Map": ("map", "parser", "map"), "Value": ("value", "parser", "val"), "Verify": ("verify", "parser", "filter"),
                     "TryMap": ("try_map", "parser", "map"), "AndThen": ("and_then", "outer", "inner"),
                     "Context": ("context", "parser", "context")}
            if name in kinds:
                k0 = kinds[name]
                a = [vals[f] for f in k0[1:]]
                if name == "Verify" and isinstance(a[1], tuple) and a[1] and a[1][0] == "one_of_pred":
                    return P("one_of", a[1][1])
                return P(k0[0], *a)
            raise Unsupported("struct constant " + name)
        if k == "bytes":
            return SliceV(c.value)
        if k == "zst":
            return self.value_from_zst_type(subst_env(c.ty, fr.env), fr.env)
        if k == "path":
            text = subst_env(c.value, fr.env)
            if text.endswith("SizedTypeProperties>::ALIGN") or text.endswith("SizedTypeProperties>::SIZE"):
                return 8
            if re.search(r"::\{constant#\d+\}$", text):
                return Opaque("constant", text)       # e.g. the accessor of a thread_local! key: identified by its path
            m_ = re.match(r"\{(alloc\d+): &", text)
            if m_ and m_.group(1) in (self.P.funcs.allocs or {}):
                cf = self.P.find_const(self.P.funcs.allocs[m_.group(1)], fr.fn)
                if cf is not None:
                    if re.search(r"Atomic|Mutex|RefCell|\bCell<|OnceLock|OnceCell|LazyLock", cf.ret or "") or cf.header.startswith("static mut"):
                        # a mutable process-global: one cell for the whole run (shared by every call)
                        key = ("static", cf.name)
                        if key not in self.global_cells:
                            self.global_cells[key] = self.eval_const_item(cf)
                        if key not in st.store:
                            st.store[key] = self.global_cells[key]
                        return Ref(key, ())
                    return ValRef(self.eval_const_item(cf))
            if text.startswith("{") and text.endswith("}"):
                raise Unsupported("const " + text)
            if text.startswith("{alloc") or text.startswith("Indirect") or text.startswith("Scalar("):
                raise Unsupported("raw const " + text[:60])
            cf = self.P.find_const(text, fr.fn)
            if cf is not None and cf.kind in ("const", "static", "promoted"):
                return self.eval_const_item(cf)
            return self.path_value(text, fr)
        raise Unsupported("const kind " + k)

    def value_from_zst_type(self, t, env):
        """a zero-sized value is determined by its type: fn items, capture-less closures and the
        winnow combinator objects built from them (the optimiser re-materialises those from the type)"""
        t = t.strip()
        if t.startswith("for<"):
            t = t[match_close(t, 3, angle=True) + 1:].strip()
        if t.startswith("fn(") or t.startswith("unsafe fn(") or t.startswith("extern "):
            i = t.rindex("{")
            # the item path is the last top-level {...}
            j = len(t) - 1
            depth = 0
            while j >= 0:
                if t[j] == "}":
                    depth += 1
                elif t[j] == "{":
                    depth -= 1
                    if depth == 0:
                        break
                j -= 1
            return FnItem(t[j + 1:-1])
        if t.startswith("{closure@"):
            inner = t[1:-1]
            if not inner.startswith("closure@winnow::"):
                return Closure(t, (), env)
            body = inner[len("closure@"):]
            lt = body.index("<")
            name = body[:lt].split("::")[-1]
            e = match_close(body, lt, angle=True)
            gens = split_top(body[lt + 1:e])
            sub = lambda x: self.value_from_zst_type(x, env)
            from .winnow import P
            if name in ("preceded", "terminated"):
                return P(name, sub(gens[-2]), sub(gens[-1]))
            if name in ("delimited", "separated_pair"):
                return P(name, sub(gens[-3]), sub(gens[-2]), sub(gens[-1]))
            if name in ("cut_err", "peek", "opt", "not"):
                return P(name, sub(gens[-1]))
            if name == "alt":
                return P("alt", list(sub(gens[-1])))
            if name == "one_of":
                return ("one_of_pred", sub(gens[1]))
            raise Unsupported("zero-sized winnow closure " + name)
        if t.startswith("(") and t.endswith(")"):
            return tuple(self.value_from_zst_type(x, env) for x in split_top(t[1:-1]))
        m = re.match(r"(?:winnow::combinator::(?:\w+::)?)?(Map|Verify|AndThen|Value|Context|TryMap|Void|Span|Recognize|Take)<", t) or \
            re.match(r"winnow::combinator::(\w+)<", t)
        if m:
            from .winnow import P
            gens = split_top(t[m.end():match_close(t, m.end() - 1, angle=True)])
            sub = lambda x: self.value_from_zst_type(x, env)
            if m.group(1) == "Map":
                return P("map", sub(gens[0]), sub(gens[1]))
            if m.group(1) == "Verify":
                inner = sub(gens[0])
                pred = sub(gens[1])
                if isinstance(pred, tuple) and pred and pred[0] == "one_of_pred":
                    return P("one_of", pred[1])
                return P("verify", inner, pred)
            if m.group(1) == "AndThen":
                return P("and_then", sub(gens[0]), sub(gens[1]))
            raise Unsupported("zero-sized winnow adaptor " + m.group(1))
        if os.environ.get("VERIF_DEBUG"):
            print("DEBUG opaque zst type:", t[:300], file=sys.stderr)
        return Opaque("zst", t)

    def eval_const_item(self, cf):
        if cf.name in self.const_cache:
            return self.const_cache[cf.name]
        st = St()
        outs = self.call_fn(cf, [], st, {})
        if len(outs) != 1 or isinstance(outs[0][1], Panic):
            raise Unsupported("const item %s did not evaluate" % cf.name)
        v = outs[0][1]
        # references inside constants point to cells of the dead const frame: snapshot them
        v = self.snapshot(v, outs[0][0])
        self.const_cache[cf.name] = v
        return v

    def snapshot(self, v, st):
        if isinstance(v, Ref):
            return ValRef(self.snapshot(self.read_ref(v, st), st))
        if isinstance(v, tuple):
            return tuple(self.snapshot(x, st) for x in v)
        if isinstance(v, ValRef):
            return ValRef(self.snapshot(v.v, st))
        if isinstance(v, Adt):
            return Adt(v.ty, v.variant, [self.snapshot(x, st) for x in v.fields])
        if isinstance(v, Struct):
            return Struct(v.ty, v.names, [self.snapshot(x, st) for x in v.fields])
        return v

    def path_value(self, text, fr):
        """a bare path used as a value: fn item, unit struct / unit variant"""
        p = parse_path(text)
        names = p.names()
        if names[-1] == "STATIC_MAX_LEVEL":
            return Adt("LevelFilter", "Trace")
        if text.endswith("SystemTime::UNIX_EPOCH") or names[-1] == "UNIX_EPOCH":
            return Adt("SystemTime", None, [0])
        m = re.search(r"<impl ([ui])(\d+|size)>::(MAX|MIN|BITS)$", text)
        if m:
            w = 64 if m.group(2) == "size" else int(m.group(2))
            if m.group(3) == "BITS":
                return w
            if m.group(1) == "u":
                return (1 << w) - 1 if m.group(3) == "MAX" else 0
            return (1 << (w - 1)) - 1 if m.group(3) == "MAX" else (1 << (w - 1))      # two's complement bit pattern
        # unit enum variants of known enums:  Option::<T>::None, ast::Test::True ...
        if len(names) >= 2 and names[-2] in self.P.enum_variants and names[-1] in self.P.enum_variants[names[-2]]:
            if (names[-2], names[-1]) in self.P.variant_has_fields and not self.P.variant_has_fields[(names[-2], names[-1])]:
                return Adt(names[-2], names[-1], ())          # unit variant: a plain value
            # a tuple-variant constructor used as a function (or an external unit variant): decided at use
            return VariantOrCtor(names[-2], names[-1], text)
        return FnItem(text)

    # ------------------------------------------------------------------ statements
    def exec_stmt(self, s, fr, st):
        if s.kind == "assign":
            v = self.eval_rvalue(s.rv, fr, st, s.place)
            self.write_place(s.place, v, fr, st)
        elif s.kind == "setdiscr":
            cur = self.read_place(s.place, fr, st)
            if isinstance(cur, Adt):
                ty = cur.ty
            else:
                ty = type_head(self.place_type(s.place, fr) or "")
            self.write_place(s.place, Adt(ty, self.P.variant_name(ty, s.idx), ()), fr, st)
        else:
            raise Unsupported("stmt " + s.kind)

    def int_bits(self, ty):
        if ty is None:
            return None
        ty = ty.strip()
        if ty in INT_TYPES:
            return INT_TYPES[ty], ty[0] == "i"
        if ty == "char":
            return 32, False
        if ty == "bool":
            return 1, False
        return None

    def eval_rvalue(self, rv, fr, st, dest=None):
        k = rv.kind
        a = rv.args
        if k == "use":
            v = self.eval_operand(a[0], fr, st)
            if isinstance(v, VariantOrCtor) and not self.P.variant_has_fields.get((v.enum, v.variant)):
                v = Adt(v.enum, v.variant, ())
            return v
        if k == "ref":
            mut, pl = a
            if mut:
                key, path = self.resolve(pl, fr, st)
                return Ref(key, path)
            if pl.proj and pl.proj[-1][0] == "subslice":
                return self.read_place(pl, fr, st)          # &x[a..b]: the fat pointer is the window itself
            pt = self.place_type(pl, fr) or ""
            if fr.fn.kind == "fn" and any(t in pt for t in ("Cell<", "Mutex<", "RwLock<", "OnceLock<", "LazyLock<", "Atomic")):
                # a shared borrow of something with interior mutability must stay a real pointer: writes through it are visible
                try:
                    key, path = self.resolve(pl, fr, st)
                    return Ref(key, path)
                except Unsupported:
                    pass
            return ValRef(self.read_place(pl, fr, st))
        if k == "addr":
            mut, pl = a
            if mut:
                key, path = self.resolve(pl, fr, st)
                return Ref(key, path)
            return ValRef(self.read_place(pl, fr, st))
        if k == "aggregate":
            kind, path, ops = a
            if kind == "tuple":
                return tuple(self.eval_operand(o, fr, st) for o in ops)
            if kind == "array":
                return SliceV([self.eval_operand(o, fr, st) for o in ops])
            if kind == "closure":
                return Closure(path, [self.eval_operand(o, fr, st) for o in ops], fr.env)
            if kind == "adt":
                p = parse_path(subst_env(path, fr.env))
                names = p.names()
                vals = [self.eval_operand(o, fr, st) for o in ops]
                if len(names) >= 2 and names[-2] in self.P.enum_variants and names[-1] in self.P.enum_variants[names[-2]]:
                    return Adt(names[-2], names[-1], vals)
                if len(names) == 1 and names[0] not in self.P.struct_fields:
                    owners = [e for e, vs in self.P.enum_variants.items() if names[0] in vs]
                    if len(owners) == 1:
                        return Adt(owners[0], names[0], vals)
                return Adt(names[-1], None, vals)          # tuple struct
            if kind == "struct":
                p = parse_path(subst_env(path, fr.env))
                names = p.names()
                fn = [n for n, _ in ops]
                vals = [self.eval_operand(o, fr, st) for _, o in ops]
                if len(names) >= 2 and names[-2] in self.P.enum_variants and names[-1] in self.P.enum_variants[names[-2]]:
                    return Adt(names[-2], names[-1], vals)
                order = self.P.struct_fields.get(names[-1])
                if order and set(order) == set(fn):
                    d = dict(zip(fn, vals))
                    return Struct(names[-1], order, [d[n] for n in order])
                return Struct(names[-1], fn, vals)
        if k == "discr":
            v = self.read_place(a[0], fr, st)
            return self.discriminant(v)
        if k == "cast":
            op, ty, ck = a
            v = self.eval_operand(op, fr, st)
            return self.cast(v, subst_env(ty, fr.env), ck, op, fr)
        if k == "binop":
            name, x, y = a
            vx, vy = self.eval_operand(x, fr, st), self.eval_operand(y, fr, st)
            ty = self.operand_type(x, fr) or self.operand_type(y, fr)
            return self.binop(name, vx, vy, ty)
        if k == "unop":
            name, x = a
            v = self.eval_operand(x, fr, st)
            ty = self.operand_type(x, fr)
            if name == "Not":
                if isinstance(v, bool) or z3.is_bool(v) if is_sym(v) else isinstance(v, bool):
                    return b_not(v)
                bits = self.int_bits(ty)
                if isinstance(v, int):
                    if bits is None:
                        raise Unsupported("Not on untyped int")
                    return (~v) & ((1 << bits[0]) - 1)
                return ~v
            if name == "Neg":
                if isinstance(v, int):
                    return -v
                return -v
            if name == "PtrMetadata":
                vv = v.v if isinstance(v, ValRef) else v
                if isinstance(vv, (SliceV, StrSlice)):
                    return len(vv)
            raise Unsupported("unop " + name)
        if k == "len":
            v = self.read_place(a[0], fr, st)
            return len(self.seq_items(v))
        if k == "repeat":
            v = self.eval_operand(a[0], fr, st)
            n = int(re.sub(r"_usize$", "", a[1].replace("const ", "").strip()))
            return SliceV([v] * n)
        if k == "shallowbox":
            return BoxV(None)
        if k == "nullop":
            if a[0] == "UbChecks":
                return False
            raise Unsupported("nullop " + a[0])
        raise Unsupported("rvalue " + k)

    def operand_type(self, op, fr):
        if op.kind == "const":
            return op.const.ty
        return self.place_type(op.place, fr)

    def discriminant(self, v):
        if isinstance(v, Union):
            alts = [(g, self.discriminant(x)) for g, x in v.alts]
            idx0 = alts[0][1]
            if all(i == idx0 for _, i in alts):
                return idx0
            acc = z3.BitVecVal(alts[-1][1], 64)
            for g, i in reversed(alts[:-1]):
                acc = z3.If(g, z3.BitVecVal(i, 64), acc) if g is not True else z3.BitVecVal(i, 64)
            return acc
        if isinstance(v, Adt):
            if v.variant is None:
                return 0
            return self.P.variant_index(v.ty, v.variant)
        if isinstance(v, VariantOrCtor):
            return self.P.variant_index(v.enum, v.variant)
        raise Unsupported("discriminant of %r" % (v,))

    def cast(self, v, ty, ck, op, fr):
        ty = ty.strip()
        if ck.startswith("Transmute") and ty in INT_TYPES and isinstance(v, (BoxV, Ref, ValRef, HeapBox)):
            return 0x1000 # address of an allocation: modelled as non-null and suitably aligned
        if ck.startswith("IntToInt") or ck.startswith("Transmute") and ty in INT_TYPES:
            bits, signed = self.int_bits(ty) or (None, None)
            if bits is None:
                raise Unsupported("cast to " + ty)
            src = self.int_bits(self.operand_type(op, fr))
            if isinstance(v, bool):
                return int(v)
            if isinstance(v, int):
                v &= (1 << bits) - 1
                return v
            if z3.is_bool(v):
                return z3.If(v, z3.BitVecVal(1, bits), z3.BitVecVal(0, bits))
            sb = v.size()
            if sb == bits:
                return v
            if sb > bits:
                return z3.Extract(bits - 1, 0, v)
            if src and src[1]:
                return z3.SignExt(bits - sb, v)
            return z3.ZeroExt(bits - sb, v)
        if ck.startswith("PointerCoercion") or ck.startswith("PtrToPtr") or ck.startswith("Transmute"):
            if "Unsize" in ck:
                vv = v.v if isinstance(v, ValRef) else v
                if isinstance(vv, SliceV) and isinstance(v, ValRef):
                    return vv                # &[T; N] -> &[T]
                return v                     # Box<T> -> Box<dyn Trait>, &T -> &dyn Trait
            if "ReifyFnPointer" in ck or "ClosureFnPointer" in ck:
                return v
            return v
        raise Unsupported("cast kind " + ck)

    def scalarize(self, v, width):
        """a guarded union of integers (merged before their width was known) -> one ite term"""
        if not isinstance(v, Union):
            return v
        alts = []
        for g, x in v.alts:
            if isinstance(x, bool):
                x = int(x)
            if type(x).__name__ == "ByteLen" and width == 64:
                x = x.term()
            if isinstance(x, int):
                x = z3.BitVecVal(x, width)
            elif not (is_sym(x) and z3.is_bv(x) and x.size() == width):
                raise Unsupported("cannot scalarize %r to %d bits" % (x, width))
            alts.append((g, x))
        acc = alts[-1][1]
        for g, x in reversed(alts[:-1]):
            acc = z3.If(g, x, acc)
        return acc

    def binop(self, name, x, y, ty):
        from .stdmodel import ByteLen, bytelen_binop
        if isinstance(x, ByteLen) or isinstance(y, ByteLen):
            r = bytelen_binop(self, name, x, y, ty)
            if r is not NotImplemented:
                return r
            x = x.term() if isinstance(x, ByteLen) else x
            y = y.term() if isinstance(y, ByteLen) else y
        bits = self.int_bits(ty)
        if bits is not None and (isinstance(x, Union) or isinstance(y, Union)):
            x, y = self.scalarize(x, bits[0]), self.scalarize(y, bits[0])
        cx, cy = not is_sym(x), not is_sym(y)
        if isinstance(x, (Adt, Union)) or isinstance(y, (Adt, Union)):
            # comparison of C-like enums through their discriminants is printed on the discriminant
            raise Unsupported("binop %s on non-scalars" % name)
        if name in ("Eq", "Ne"):
            if cx and cy:
                r = x == y
            else:
                r = self.sym_eq(x, y)
            return r if name == "Eq" else b_not(r)
        if name in ("BitAnd", "BitOr", "BitXor") and (isinstance(x, bool) or (is_sym(x) and z3.is_bool(x))):
            if name == "BitAnd":
                return b_and(x, y)
            if name == "BitOr":
                return b_or(x, y)
            return b_not(self.sym_eq(x, y)) if not (cx and cy) else (x != y)
        if bits is None:
            # infer from a symbolic operand
            for t in (x, y):
                if is_sym(t) and z3.is_bv(t):
                    bits = (t.size(), False)
            if bits is None:
                raise Unsupported("binop %s on untyped operands (%r)" % (name, ty))
        w, signed = bits
        mask = (1 << w) - 1
        if cx and cy:
            x, y = int(x), int(y)
            if signed:
                def tos(v):
                    v &= mask
                    return v - (1 << w) if v >> (w - 1) else v
                x, y = tos(x), tos(y)
            wide = {"Add": x + y, "Sub": x - y, "Mul": x * y}
            base = name.replace("WithOverflow", "").replace("Unchecked", "")
            if base in wide:
                r = wide[base]
                lo, hi = (-(1 << (w - 1)), (1 << (w - 1)) - 1) if signed else (0, mask)
                ov = not (lo <= r <= hi)
                r &= mask
                if name.endswith("WithOverflow"):
                    return (r, ov)
                return r
            if name == "Div":
                if y == 0:
                    raise PanicExc("attempt to divide by zero")
                return (abs(x) // abs(y) * (1 if (x < 0) == (y < 0) else -1)) & mask
            if name == "Rem":
                if y == 0:
                    raise PanicExc("attempt to calculate the remainder with a divisor of zero")
                return (abs(x) % abs(y) * (1 if x >= 0 else -1)) & mask
            if name == "BitAnd":
                return (x & y) & mask
            if name == "BitOr":
                return (x | y) & mask
            if name == "BitXor":
                return (x ^ y) & mask
            if base == "Shl":
                return (x << (y % w)) & mask
            if base == "Shr":
                return (x >> (y % w)) & mask
            if name == "Lt":
                return x < y
            if name == "Le":
                return x <= y
            if name == "Gt":
                return x > y
            if name == "Ge":
                return x >= y
            if name == "Cmp":
                return Adt("Ordering", "Less" if x < y else "Equal" if x == y else "Greater")
            raise Unsupported("binop " + name)
        # symbolic
        X = x if is_sym(x) else z3.BitVecVal(x, w)
        Y = y if is_sym(y) else z3.BitVecVal(y, w)
        if name.replace("Unchecked", "") in ("Shl", "Shr"):
            # MIR Shl/Shr: the shift amount may have another width and is taken modulo the width of the left operand
            # (the overflow check of the dev profile is a separate Assert)
            wx = X.size()
            if Y.size() > wx:
                Y = z3.Extract(wx - 1, 0, Y & z3.BitVecVal(wx - 1, Y.size()))
            elif Y.size() < wx:
                Y = z3.ZeroExt(wx - Y.size(), Y)
            Y = Y & z3.BitVecVal(wx - 1, wx)
        if X.size() != Y.size():
            raise Unsupported("binop width mismatch %s: %d vs %d" % (name, X.size(), Y.size()))
        w = X.size()
        base = name.replace("WithOverflow", "").replace("Unchecked", "")
        if base in ("Add", "Sub", "Mul"):
            ext = (z3.SignExt if signed else z3.ZeroExt)
            XX, YY = ext(w, X), ext(w, Y)
            full = XX + YY if base == "Add" else XX - YY if base == "Sub" else XX * YY
            r = z3.Extract(w - 1, 0, full)
            if name.endswith("WithOverflow"):
                ov = full != ext(w, r)
                return (r, ov)
            return r
        if name == "BitAnd":
            return X & Y
        if name == "BitOr":
            return X | Y
        if name == "BitXor":
            return X ^ Y
        if base == "Shl":
            return X << Y
        if base == "Shr":
            return (X >> Y) if signed else z3.LShR(X, Y)
        if name == "Div":
            return (X / Y) if signed else z3.UDiv(X, Y)
        if name == "Rem":
            return z3.SRem(X, Y) if signed else z3.URem(X, Y)
        if name == "Lt":
            return (X < Y) if signed else z3.ULT(X, Y)
        if name == "Le":
            return (X <= Y) if signed else z3.ULE(X, Y)
        if name == "Gt":
            return (X > Y) if signed else z3.UGT(X, Y)
        if name == "Ge":
            return (X >= Y) if signed else z3.UGE(X, Y)
        raise Unsupported("symbolic binop " + name)

    def sym_eq(self, x, y):
        if isinstance(x, bool) and is_sym(y):
            return y if x else z3.Not(y)
        if isinstance(y, bool) and is_sym(x):
            return x if y else z3.Not(x)
        if isinstance(x, int) and is_sym(y):
            x = z3.BitVecVal(x, y.size())
        if isinstance(y, int) and is_sym(x):
            y = z3.BitVecVal(y, x.size())
        return x == y

    # ------------------------------------------------------------------ terminators
    def exec_term(self, t, fr, st, fn, bb):
        k = t.kind
        if k == "goto":
            return ("goto", t.target)
        if k == "return":
            return ("return", st.store.get((fr.fid, 0), ()))
        if k == "drop":
            return ("goto", t.target)
        if k == "unreachable":
            raise Unsupported("reached `unreachable` terminator in %s bb%d" % (fn.name, bb))
        if k == "resume":
            raise Unsupported("reached cleanup path in " + fn.name)
        if k == "switch":
            v = self.eval_operand(t.op, fr, st)
            if isinstance(v, bool):
                v = int(v)
            if isinstance(v, int):
                for c, target in t.cases:
                    if c == v:
                        return ("goto", target)
                return ("goto", t.otherwise)
            # symbolic: fork
            from .stdmodel import ByteLen
            if isinstance(v, ByteLen):
                if v.add == 0 and all(c == 0 for c, _ in t.cases) and t.otherwise is not None:
                    return ("goto", t.otherwise)
                v = v.term()
            if isinstance(v, Union):
                paths = []
                for g, x in v.alts:
                    if not self.feasible(st.pc, g):
                        continue
                    if isinstance(x, bool):
                        x = int(x)
                    if isinstance(x, ByteLen):
                        if x.add == 0 and all(c == 0 for c, _ in t.cases) and t.otherwise is not None:
                            paths.append((st.fork(b_simpl(g)), t.otherwise))
                            continue
                        raise Unsupported("switchInt on a byte length of symbolic text inside a union")
                    if not isinstance(x, int):
                        raise Unsupported("switchInt on union alternative %r" % (x,))
                    tgt = t.otherwise
                    for c, target in t.cases:
                        if c == x:
                            tgt = target
                    paths.append((st.fork(b_simpl(g)), tgt))
                return ("paths", paths)
            paths = []
            nots = []
            for c, target in t.cases:
                if z3.is_bool(v):
                    g = v if c else z3.Not(v)
                else:
                    g = v == z3.BitVecVal(c, v.size())
                nots.append(z3.Not(g))
                if self.feasible(st.pc, g):
                    paths.append((st.fork(b_simpl(g)), target))
            if t.otherwise is not None:
                g = b_and(*nots)
                if self.feasible(st.pc, g):
                    paths.append((st.fork(b_simpl(g)), t.otherwise))
            self.stats["forks"] += max(0, len(paths) - 1)
            if len(paths) == 1:
                # no real fork: keep the (stronger) path condition
                st.pc = paths[0][0].pc
                return ("goto", paths[0][1])
            if not paths:
                if os.environ.get("VERIF_DEBUG"):
                    print("DEBUG no feasible target; assumptions alone:", self.solver.check(*self.assumptions), "pc alone:", self.solver.check(*[c for c in st.pc if c is not True]), file=sys.stderr)
                    print("DEBUG pc:", [str(c)[:200] for c in st.pc][-6:], file=sys.stderr)
                    print("DEBUG assumptions:", [str(c)[:120] for c in self.assumptions][-12:], file=sys.stderr)
                raise Unsupported("no feasible switch target in %s bb%d" % (fn.name, bb))
            return ("paths", paths)
        if k == "assert":
            v = self.eval_operand(t.op, fr, st)
            ok = v if t.expected else b_not(v)
            if ok is True:
                return ("goto", t.target)
            msg = t.msg
            if ok is False:
                raise PanicExc(msg)
            paths = []
            if self.feasible(st.pc, ok):
                paths.append((st.fork(b_simpl(ok)), t.target))
            nok = b_not(ok)
            if self.feasible(st.pc, nok):
                paths.append((st.fork(b_simpl(nok)), Panic(msg, "%s:bb%d" % (fn.name, bb))))
            return ("paths", paths)
        if k == "call":
            return self.exec_call(t, fr, st, fn, bb)
        raise Unsupported("terminator " + k)

    def exec_call(self, t, fr, st, fn, bb):
        args = [self.eval_operand(a, fr, st) for a in t.args]
        if isinstance(t.callee, Operand):
            callee = self.eval_operand(t.callee, fr, st)
            outs = self.call_value(callee, args, st)
        else:
            text = subst_env(t.callee, fr.env)
            outs = self.call_path(parse_path(text), args, st, fr, t)
        # outs: [(St, value|Panic)]
        paths = []
        for s2, v in outs:
            if isinstance(v, Panic):
                if ":bb" not in (v.site or ""):
                    # a panic raised inside a modelled library function: name the calling site of the crate
                    v = Panic(v.msg, "%s:bb%d (%s)" % (fn.name, bb, v.site))
                paths.append((s2, v))
                continue
            if t.target is None:
                raise Unsupported("diverging call returned: %s" % (t.callee,))
            if isinstance(v, VariantOrCtor) and not self.P.variant_has_fields.get((v.enum, v.variant)):
                v = Adt(v.enum, v.variant, ())
            self.write_place(t.place, v, fr, s2)
            paths.append((s2, t.target))
        if len(paths) == 1 and paths[0][0] is st and not isinstance(paths[0][1], Panic):
            return ("goto", paths[0][1])
        return ("paths", paths)

    def call_path(self, path, args, st, fr, term=None):
        """dispatch a call by path: hand-written crate trait impls, then intrinsic models, then crate MIR"""
        if path.qself is not None and path.qself.startswith("dyn ") and args:
            # dynamic dispatch on the concrete type behind the trait object
            recv = args[0]
            v = self.read_ref(recv, st) if isinstance(recv, Ref) else recv
            while isinstance(v, (ValRef, BoxV, HeapBox)):
                v = st.store[v.key] if isinstance(v, HeapBox) else v.v
            if isinstance(v, Union):
                raise Unsupported("dynamic dispatch on a union receiver")
            ty = getattr(v, "ty", None)
            if ty is None:
                raise Unsupported("dynamic dispatch on %r" % (v,))
            path = parse_path("<%s as %s>::%s" % (ty, path.trait, "::".join(path.names())))
        if path.trait is not None and path.qself is not None:
            r = self.P.resolve_fn(path, fr.env if fr else None, handwritten_only=True)
            if r is not None:
                f, b = r
                return self.call_fn(f, args, st, dict(b))
        h = self.find_intrinsic(path)
        if h is not None:
            self.stats["intrinsics"].add(h.__name__)
            return self.call_intrinsic(h, args, st, path, fr, term)
        r = self.P.resolve_fn(path, fr.env if fr else None)
        if r is not None:
            f, b = r
            env = dict(b)
            return self.call_fn(f, args, st, env)
        # constructor shims:  Enum::Variant(args) used as a function
        names = path.names()
        if len(names) >= 2 and names[-2] in self.P.enum_variants and names[-1] in self.P.enum_variants[names[-2]]:
            return [(st, Adt(names[-2], names[-1], args))]
        raise Unsupported("call to unmodelled function %s" % path.text[:200])

    def call_intrinsic(self, h, args, st, path, fr, term):
        """run an intrinsic; arguments that are guarded unions are split first (one call per
        alternative under its guard) unless the intrinsic declares that it handles unions"""
        if not getattr(h, "union_ok", False):
            for i, a in enumerate(args):
                u = a.v if isinstance(a, ValRef) else a
                if isinstance(u, Union):
                    outs = []
                    for g, x in u.alts:
                        if not self.feasible(st.pc, g):
                            continue
                        st2 = st.fork(b_simpl(g))
                        a2 = list(args)
                        a2[i] = ValRef(x) if isinstance(a, ValRef) else x
                        outs.extend(self.call_intrinsic(h, a2, st2, path, fr, term))
                    if not outs:
                        raise Unsupported("no feasible alternative for union argument")
                    return outs
        info = CallInfo(self, path, fr, term, st)
        r = h(self, st, args, info)
        return self.normalise(r, st)

    def normalise(self, r, st):
        """turn an intrinsic's result into [(St, value|Panic)]"""
        if isinstance(r, list):
            return r
        if isinstance(r, Outcomes):
            out = []
            normal = []
            for g, v in r.alts:
                g = b_simpl(g)
                if g is False or not self.feasible(st.pc, g):
                    continue
                if isinstance(v, Panic):
                    out.append((st.fork(g), v))
                else:
                    normal.append((g, v))
            if normal:
                if len(normal) == 1 and not out:
                    out.append((st, normal[0][1]))
                else:
                    s2 = st.fork(b_or(*[g for g, _ in normal]))
                    out.insert(0, (s2, merge_many(normal)))
            if not out:
                raise Unsupported("intrinsic produced no feasible outcome")
            return out
        return [(st, r)]

    def find_intrinsic(self, path):
        names = ["<impl [T]>" if n.startswith("<impl [") else n for n in path.names()]
        keys = []
        if path.trait is not None:
            th = type_head(path.trait)
            keys.append("<%s as %s>::%s" % (type_head(path.qself or ""), th, names[-1]))
            keys.append("%s::%s" % (th, names[-1]))
        if len(names) >= 2:
            keys.append("::".join(names[-2:]))
        if path.qself is not None and path.trait is None:
            keys.append("%s::%s" % (type_head(path.qself), names[-1]))
        keys.append(names[-1] if len(names) == 1 else "::" + names[-1])
        for k in keys:
            h = self.intrinsics.get(k)
            if h is not None:
                return h
        if len(names) == 1 and path.qself is None and names[0] not in self.P.funcs:
            # a winnow function imported by name (`use winnow::token::take_till`) is printed bare in that file's MIR
            for pre in ("token::", "combinator::", "ascii::"):
                h = self.intrinsics.get(pre + names[0])
                if h is not None:
                    return h
        return None

    def call_value(self, callee, args, st):
        """call a closure / fn item value with already-evaluated argument list"""
        if isinstance(callee, (ValRef, BoxV)):
            return self.call_value(callee.v, args, st)
        if isinstance(callee, HeapBox):
            return self.call_value(st.store[callee.key], args, st)
        if isinstance(callee, Ref):
            return self.call_value(self.read_ref(callee, st), args, st)
        if isinstance(callee, Closure):
            name = self.P.closure_by_span.get(callee.span)
            if name is None:
                raise Unsupported("closure body not found: " + callee.span)
            f = self.P.funcs[name]
            # _1 is the closure itself (by value, & or &mut)
            self_ty = f.args[0][1]
            selfv = callee if not self_ty.startswith("&") else ValRef(callee)
            return self.call_fn(f, [selfv] + list(args), st, dict(callee.env))
        if isinstance(callee, FnItem):
            return self.call_path(parse_path(callee.path), args, st, None)
        if isinstance(callee, VariantOrCtor):
            return [(st, Adt(callee.enum, callee.variant, args))]
        if isinstance(callee, Union):
            outs = []
            for g, c in callee.alts:
                if not self.feasible(st.pc, g):
                    continue
                outs.extend(self.call_value(c, args, st.fork(g)))
            return outs
        raise Unsupported("call of %r" % (callee,))

    def call_inplace(self, callee, args, st):
        """call a closure/fn value whose effects must be kept: requires a single (merged) normal
        outcome; the caller's state is updated in place.  Panics propagate as PanicExc when they
        are the only outcome."""
        outs = self.call_value(callee, args, st)
        normal = [(s, v) for s, v in outs if not isinstance(v, Panic)]
        panics = [(s, v) for s, v in outs if isinstance(v, Panic)]
        if panics and not normal:
            raise PanicExc(panics[0][1].msg, panics[0][1].site)
        if panics:
            raise Unsupported("conditional panic inside an iterator adaptor closure")
        if len(normal) != 1:
            raise Unsupported("closure forked where a single outcome is required")
        s2, v = normal[0]
        st.store = s2.store
        st.pc = s2.pc
        return v

    def call1(self, callee, args, st):
        """call a pure closure/fn value and return its single merged value; panics raise"""
        outs = self.call_value(callee, args, st)
        normal = [(s, v) for s, v in outs if not isinstance(v, Panic)]
        panics = [(s, v) for s, v in outs if isinstance(v, Panic)]
        if panics and not normal:
            raise PanicExc(panics[0][1].msg, panics[0][1].site)
        if panics:
            n0 = len(st.pc)
            alts = [(b_and(*s.pc[n0:]), v) for s, v in normal + panics]
            return Outcomes(alts)
        if len(normal) == 1:
            return normal[0][1]
        n0 = len(st.pc)
        return merge_many([(b_and(*s.pc[n0:]), v) for s, v in normal])


class VariantOrCtor:
    """a path naming an enum variant: a value (unit variant) or a constructor function"""
    __slots__ = ("enum", "variant", "text")

    def __init__(self, enum, variant, text):
        self.enum, self.variant, self.text = enum, variant, text

    def __repr__(self):
        return "%s::%s" % (self.enum, self.variant)


class CallInfo:
    __slots__ = ("I", "path", "fr", "term", "st")

    def __init__(self, I, path, fr, term, st):
        self.I, self.path, self.fr, self.term, self.st = I, path, fr, term, st

    def dest_type(self):
        if self.term is None or self.fr is None:
            return None
        return self.I.place_type(self.term.place, self.fr)
