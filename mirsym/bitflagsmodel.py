# Model of the bitflags 2.x generated API for the crate's two flag types (Mode, SFlag).
# The flag *values* and the set of declared flags are read from the crate's MIR constants
# (src/permission_flags.rs), only the generated methods are modelled.
import re
import z3
from .values import *
from . import interp as _interp
from .interp import Unsupported, Outcomes

W = 32


def register(I, R):
    from .stdmodel import deref_all

    all_cache = {}

    def flag_type(info, args, st):
        t = info.path.text
        m = re.search(r"<impl (?:\w+::)*(\w+)>", t)
        if m and m.group(1) in ("Mode", "SFlag"):
            return m.group(1)
        if info.path.qself:
            h = _interp.type_head(info.path.qself)
            if h in ("Mode", "SFlag"):
                return h
        for a in args:
            v = deref_all(I, a, st)
            if isinstance(v, Adt) and v.ty in ("Mode", "SFlag"):
                return v.ty
        dt = _interp.short_type(info.dest_type() or "")
        m = re.search(r"\b(Mode|SFlag)\b", dt)
        if m:
            return m.group(1)
        raise Unsupported("bitflags type of " + t[:120])

    def mk(ty, bits):
        return Adt(ty, None, [bits])

    def bits_of(v, st):
        v = deref_all(I, v, st)
        if isinstance(v, Adt) and v.ty in ("Mode", "SFlag"):
            b = v.fields[0]
            if isinstance(b, Union):
                b = merge_many([(g, z3.BitVecVal(x, W) if isinstance(x, int) else x) for g, x in b.alts])
            return b
        if isinstance(v, Union):
            return merge_many([(g, (lambda y: z3.BitVecVal(y, W) if isinstance(y, int) else y)(bits_of(x, st))) for g, x in v.alts])
        raise Unsupported("not a flags value: %r" % (v,))

    def all_bits(ty):
        if ty not in all_cache:
            acc = 0
            n = 0
            for name, f in I.P.funcs.items():
                if f.kind == "const" and _interp.short_type(f.ret or "") == ty and re.search(r"::S_\w+$", name):
                    v = I.eval_const_item(f)
                    acc |= bits_of(v, None)
                    n += 1
            if n == 0:
                raise Unsupported("no declared flags for " + ty)
            all_cache[ty] = acc
        return all_cache[ty]

    def band(a, b):
        return a & b

    def bnot(a):
        if isinstance(a, int):
            return (~a) & 0xFFFFFFFF
        return ~a

    def is_zero(a):
        if isinstance(a, int):
            return a == 0
        return a == z3.BitVecVal(0, W)

    def reg(*names):
        def d(f):
            for n in names:
                R[n] = f
            return f
        return d

    def method(name, impl):
        def h(I, st, args, info):
            ty = flag_type(info, args, st)
            return impl(ty, args, st)
        h.__name__ = "bitflags_" + name
        for prefix in ("<impl Mode>", "<impl SFlag>", "Mode", "SFlag", "InternalBitFlags", "Flags"):
            R["%s::%s" % (prefix, name)] = h
        return h

    method("bits", lambda ty, a, st: bits_of(a[0], st))
    method("from_bits_retain", lambda ty, a, st: mk(ty, a[0]))
    method("from_bits_truncate", lambda ty, a, st: mk(ty, band(a[0], all_bits(ty))))
    method("empty", lambda ty, a, st: mk(ty, 0))
    method("all", lambda ty, a, st: mk(ty, all_bits(ty)))

    def from_bits(ty, a, st):
        b = a[0]
        extra = band(b, bnot(all_bits(ty)))
        okg = is_zero(extra)
        if okg is True:
            return Adt("Option", "Some", [mk(ty, b)])
        if okg is False:
            return Adt("Option", "None")
        return Outcomes([(okg, Adt("Option", "Some", [mk(ty, b)])), (z3.Not(okg), Adt("Option", "None"))])
    method("from_bits", from_bits)
    method("complement", lambda ty, a, st: mk(ty, band(bnot(bits_of(a[0], st)), all_bits(ty))))
    method("union", lambda ty, a, st: mk(ty, bits_of(a[0], st) | bits_of(a[1], st)))
    method("intersection", lambda ty, a, st: mk(ty, bits_of(a[0], st) & bits_of(a[1], st)))
    method("difference", lambda ty, a, st: mk(ty, bits_of(a[0], st) & bnot(bits_of(a[1], st))))
    method("symmetric_difference", lambda ty, a, st: mk(ty, bits_of(a[0], st) ^ bits_of(a[1], st)))
    method("is_empty", lambda ty, a, st: is_zero(bits_of(a[0], st)))
    method("contains", lambda ty, a, st: I.sym_eq(bits_of(a[0], st) & bits_of(a[1], st), bits_of(a[1], st))
           if is_sym(bits_of(a[0], st)) or is_sym(bits_of(a[1], st)) else (bits_of(a[0], st) & bits_of(a[1], st)) == bits_of(a[1], st))
    method("intersects", lambda ty, a, st: b_not(is_zero(bits_of(a[0], st) & bits_of(a[1], st))))

    def op(name, f):
        def h(I, st, args, info):
            ty = flag_type(info, args, st)
            return mk(ty, f(ty, bits_of(args[0], st), bits_of(args[1], st) if len(args) > 1 else None))
        h.__name__ = "bitflags_op_" + name[1]
        for t in ("Mode", "SFlag"):
            R["<%s as %s>::%s" % (t, name[0], name[1])] = h
    op(("BitOr", "bitor"), lambda ty, x, y: x | y)
    op(("BitAnd", "bitand"), lambda ty, x, y: x & y)
    op(("BitXor", "bitxor"), lambda ty, x, y: x ^ y)
    op(("Sub", "sub"), lambda ty, x, y: x & bnot(y))
    op(("Not", "not"), lambda ty, x, y: band(bnot(x), all_bits(ty)))
