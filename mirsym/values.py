# Value domain of Engine M (see DESIGN.md 2.2): concrete Python values, z3 terms for scalars,
# structural ADTs whose fields may be symbolic, and guarded Unions for values whose shape depends
# on the input.
import z3

# ----------------------------------------------------------------------------- guards (Bool)
TRUE, FALSE = True, False


def is_sym(x):
    return isinstance(x, z3.ExprRef)


def b_not(a):
    if a is True:
        return False
    if a is False:
        return True
    return z3.Not(a)


def b_and(*xs):
    out = []
    for x in xs:
        if x is False:
            return False
        if x is True:
            continue
        out.append(x)
    if not out:
        return True
    if len(out) == 1:
        return out[0]
    return z3.And(*out)


def b_or(*xs):
    out = []
    for x in xs:
        if x is True:
            return True
        if x is False:
            continue
        out.append(x)
    if not out:
        return False
    if len(out) == 1:
        return out[0]
    return z3.Or(*out)


def b_simpl(g):
    """cheap normalisation of a guard to True/False where z3's simplifier can tell"""
    if g is True or g is False:
        return g
    s = z3.simplify(g)
    if z3.is_true(s):
        return True
    if z3.is_false(s):
        return False
    return s


def b_ite(c, a, b):
    """scalar if-then-else over ints / bools / z3 terms"""
    if c is True:
        return a
    if c is False:
        return b
    if a is b:
        return a
    if isinstance(a, bool) and isinstance(b, bool):
        if a == b:
            return a
        return c if a else z3.Not(c)
    if isinstance(a, bool):
        a = z3.BoolVal(a)
    if isinstance(b, bool):
        b = z3.BoolVal(b)
    if isinstance(a, int) and isinstance(b, int):
        if a == b:
            return a
        raise ValueError("b_ite on two untyped ints")
    if isinstance(a, int):
        a = z3.BitVecVal(a, b.size())
    if isinstance(b, int):
        b = z3.BitVecVal(b, a.size())
    return z3.If(c, a, b)


# ----------------------------------------------------------------------------- structured values
class Adt:
    """enum variant / struct value.  ty: short type name; variant: variant name (None for structs)."""
    __slots__ = ("ty", "variant", "fields")

    def __init__(self, ty, variant, fields=()):
        self.ty, self.variant, self.fields = ty, variant, tuple(fields)

    def __repr__(self):
        n = self.ty + ("::" + self.variant if self.variant else "")
        return n + ("(" + ", ".join(map(repr, self.fields)) + ")" if self.fields else "")


class Struct:
    """struct with named fields kept in declaration order"""
    __slots__ = ("ty", "names", "fields")

    def __init__(self, ty, names, fields):
        self.ty, self.names, self.fields = ty, tuple(names), tuple(fields)

    def __repr__(self):
        return "%s{%s}" % (self.ty, ", ".join("%s: %r" % (n, f) for n, f in zip(self.names, self.fields)))


class Ref:
    """&mut pointer to a store cell + projection path"""
    __slots__ = ("key", "path")

    def __init__(self, key, path=()):
        self.key, self.path = key, tuple(path)

    def __repr__(self):
        return "&mut%r%r" % (self.key, self.path)


class ValRef:
    """shared reference, modelled as a snapshot of the (immutable while borrowed) referent"""
    __slots__ = ("v",)

    def __init__(self, v):
        self.v = v

    def __repr__(self):
        return "&%r" % (self.v,)


class BoxV:
    """Box<T> / Rc<T>: a transparent owning wrapper"""
    __slots__ = ("v", "kind")

    def __init__(self, v, kind="Box"):
        self.v, self.kind = v, kind

    def __repr__(self):
        return "%s(%r)" % (self.kind, self.v)


class HeapBox:
    """Box::new_uninit(): an allocation whose contents live in a store cell (written through raw pointers)"""
    __slots__ = ("key",)

    def __init__(self, key):
        self.key = key

    def __repr__(self):
        return "heapbox%r" % (self.key,)


class SymBuf:
    """An input buffer: a list of code-point terms (ints or BitVec32)"""
    _n = 0

    def __init__(self, chars, name=None):
        self.chars = list(chars)
        SymBuf._n += 1
        self.id = SymBuf._n
        self.name = name

    def __repr__(self):
        return "buf%d" % self.id


class StrSlice:
    """&str: a window [start,end) of a buffer of code points (offsets are in code points)"""
    __slots__ = ("buf", "start", "end")

    def __init__(self, buf, start, end):
        self.buf, self.start, self.end = buf, start, end

    def chars(self):
        return self.buf.chars[self.start:self.end]

    def key(self):
        return ("str", self.buf.id, self.start, self.end)

    def __len__(self):
        return self.end - self.start

    def __repr__(self):
        cs = self.chars()
        if all(isinstance(c, int) for c in cs):
            return repr("".join(map(chr, cs)))
        return "str[%r:%d..%d]" % (self.buf, self.start, self.end)


_static_bufs = {}


def static_str(s):
    """&'static str for a literal (interned so that identical literals share a buffer)"""
    b = _static_bufs.get(s)
    if b is None:
        b = _static_bufs[s] = SymBuf([ord(c) for c in s], name="lit")
    return StrSlice(b, 0, len(s))


class SliceV:
    """&[T] / [T; N] / Vec<T> contents: immutable tuple of element values with a window"""
    __slots__ = ("items", "start", "end", "id")
    _n = 0

    def __init__(self, items, start=0, end=None, id=None):
        self.items = tuple(items) if not isinstance(items, tuple) else items
        self.start = start
        self.end = len(self.items) if end is None else end
        if id is None:
            SliceV._n += 1
            id = SliceV._n
        self.id = id

    def elems(self):
        return self.items[self.start:self.end]

    def key(self):
        return ("slice", self.id, self.start, self.end)

    def __len__(self):
        return self.end - self.start

    def sub(self, a, b):
        return SliceV(self.items, self.start + a, self.start + b, self.id)

    def __repr__(self):
        return "[%s]" % ", ".join(map(repr, self.elems()))


class VecV:
    """Vec<T> (owned, value semantics)"""
    __slots__ = ("items",)

    def __init__(self, items=()):
        self.items = tuple(items)

    def __repr__(self):
        return "vec![%s]" % ", ".join(map(repr, self.items))


class StringV:
    """String (owned): a rope of items.  An item is a code-point term (int / BitVec32) or a Seg."""
    __slots__ = ("items",)

    def __init__(self, items=()):
        self.items = tuple(items)

    @staticmethod
    def of(s):
        return StringV([ord(c) for c in s])

    def concrete(self):
        if all(isinstance(c, int) for c in self.items):
            return "".join(map(chr, self.items))
        return None

    def __repr__(self):
        c = self.concrete()
        if c is not None:
            return "S" + repr(c)
        out = []
        for it in self.items:
            out.append(chr(it) if isinstance(it, int) else "{%s}" % (it,))
        return "S\"" + "".join(out) + "\""


class Seg:
    """non-character rope segment: decimal / hex / octal rendering of an integer term, opaque text"""
    __slots__ = ("kind", "term", "arg")

    def __init__(self, kind, term, arg=None):
        self.kind, self.term, self.arg = kind, term, arg

    def __repr__(self):
        return "%s:%s" % (self.kind, self.term)


class Closure:
    __slots__ = ("span", "captures", "env")

    def __init__(self, span, captures=(), env=None):
        self.span, self.captures, self.env = span, tuple(captures), env or {}

    def __repr__(self):
        return "closure@%s" % self.span.split("/")[-1]


class FnItem:
    __slots__ = ("path",)

    def __init__(self, path):
        self.path = path

    def __repr__(self):
        return "fn{%s}" % self.path[:60]


class Opaque:
    """uninterpreted value (formatting machinery, hashers...)"""
    __slots__ = ("what", "data")

    def __init__(self, what, data=None):
        self.what, self.data = what, data

    def __repr__(self):
        return "<%s>" % self.what


class Panic:
    __slots__ = ("msg", "site")

    def __init__(self, msg, site):
        self.msg, self.site = msg, site

    def __repr__(self):
        return "PANIC(%s @ %s)" % (self.msg, self.site)


class Union:
    """guarded union: alternatives [(guard, value)] with pairwise disjoint guards"""
    __slots__ = ("alts",)

    def __init__(self, alts):
        self.alts = alts

    def __repr__(self):
        return "U{" + " | ".join("%r" % (v,) for g, v in self.alts) + "}"


UNIT = ()


# ----------------------------------------------------------------------------- merging
def same(a, b):
    if a is b:
        return True
    ta = type(a)
    if ta is not type(b):
        if isinstance(a, (int, bool)) and isinstance(b, (int, bool)):
            return a == b and isinstance(a, bool) == isinstance(b, bool)
        return False
    if ta in (int, bool, str):
        return a == b
    if is_sym(a):
        return a.eq(b)
    if ta is tuple:
        return len(a) == len(b) and all(same(x, y) for x, y in zip(a, b))
    if ta is Adt:
        return a.ty == b.ty and a.variant == b.variant and same(a.fields, b.fields)
    if ta is Struct:
        return a.ty == b.ty and same(a.fields, b.fields)
    if ta is StrSlice:
        return a.buf is b.buf and a.start == b.start and a.end == b.end
    if ta is SliceV:
        return a.id == b.id and a.start == b.start and a.end == b.end
    if ta is VecV or ta is StringV:
        return same(a.items, b.items)
    if ta in (ValRef, BoxV):
        return same(a.v, b.v)
    if ta is Ref:
        return a.key == b.key and a.path == b.path
    if ta is HeapBox:
        return a.key == b.key
    if ta is FnItem:
        return a.path == b.path
    if ta is Closure:
        return a.span == b.span and same(a.captures, b.captures)
    if ta is Seg:
        return a.kind == b.kind and same(a.term, b.term) and a.arg == b.arg
    if ta is Union:
        return len(a.alts) == len(b.alts) and all(same(x[0], y[0]) and same(x[1], y[1]) for x, y in zip(a.alts, b.alts))
    return False


def is_scalar(v):
    return isinstance(v, (int, bool)) or is_sym(v)


def merge2(g, a, b):
    """value that is `a` when g holds and `b` otherwise"""
    if g is True:
        return a
    if g is False:
        return b
    if same(a, b):
        return a
    if is_scalar(a) and is_scalar(b):
        try:
            return b_ite(g, a, b)
        except ValueError:
            pass
        return Union([(g, a), (b_not(g), b)])
    ta, tb = type(a), type(b)
    if ta is tb:
        if ta is tuple and len(a) == len(b):
            return tuple(merge2(g, x, y) for x, y in zip(a, b))
        if ta is Adt and a.ty == b.ty and a.variant == b.variant and len(a.fields) == len(b.fields):
            return Adt(a.ty, a.variant, [merge2(g, x, y) for x, y in zip(a.fields, b.fields)])
        if ta is Struct and a.ty == b.ty:
            return Struct(a.ty, a.names, [merge2(g, x, y) for x, y in zip(a.fields, b.fields)])
        if ta is VecV and len(a.items) == len(b.items):
            return VecV([merge2(g, x, y) for x, y in zip(a.items, b.items)])
        if ta is StringV and len(a.items) == len(b.items) and all(
                is_scalar(x) and is_scalar(y) or same(x, y) for x, y in zip(a.items, b.items)):
            return StringV([merge2(g, x, y) for x, y in zip(a.items, b.items)])
        if ta in (ValRef,):
            return ValRef(merge2(g, a.v, b.v))
        if ta is BoxV and a.kind == b.kind:
            return BoxV(merge2(g, a.v, b.v), a.kind)
    alts = []
    for gg, v in ((g, a), (b_not(g), b)):
        if isinstance(v, Union):
            alts.extend((b_and(gg, g2), v2) for g2, v2 in v.alts)
        else:
            alts.append((gg, v))
    return mk_union(alts)


def mk_union(alts):
    """normalise a list of (guard, value): drop false guards, coalesce identical values"""
    out = []
    for g, v in alts:
        if g is False:
            continue
        if isinstance(v, Union):
            for g2, v2 in v.alts:
                gg = b_and(g, g2)
                if gg is not False:
                    out.append((gg, v2))
        else:
            out.append((g, v))
    res = []
    for g, v in out:
        for i, (g0, v0) in enumerate(res):
            if same(v0, v):
                res[i] = (b_or(g0, g), v0)
                break
        else:
            res.append((g, v))
    if len(res) == 1:
        return res[0][1]
    if not res:
        raise ValueError("empty union")
    return Union(res)


def merge_many(alts):
    """merge [(guard, value)] (pairwise disjoint guards, exhaustive under the consumer's path
    condition) into one value; structural where all alternatives have the same shape"""
    alts = [(g, v) for g, v in alts if g is not False]
    if not alts:
        raise ValueError("merge of nothing")
    if len(alts) == 1:
        return alts[0][1]
    v0 = alts[0][1]
    if all(same(v0, v) for _, v in alts[1:]):
        return v0
    if any(isinstance(v, Union) for _, v in alts):
        flat = []
        for g, v in alts:
            if isinstance(v, Union):
                flat.extend((b_and(g, g2), v2) for g2, v2 in v.alts)
            else:
                flat.append((g, v))
        return merge_many(flat)
    if all(is_scalar(v) for _, v in alts):
        try:
            acc = alts[-1][1]
            for g, v in reversed(alts[:-1]):
                acc = b_ite(g, v, acc)
            return acc
        except ValueError:
            return mk_union(alts)
    t0 = type(v0)
    if all(type(v) is t0 for _, v in alts):
        def cols(get, n):
            return [merge_many([(g, get(v)[i]) for g, v in alts]) for i in range(n)]
        if t0 is tuple and all(len(v) == len(v0) for _, v in alts):
            return tuple(cols(lambda v: v, len(v0)))
        if t0 is Adt and all(v.ty == v0.ty and v.variant == v0.variant and len(v.fields) == len(v0.fields) for _, v in alts):
            return Adt(v0.ty, v0.variant, cols(lambda v: v.fields, len(v0.fields)))
        if t0 is Struct and all(v.ty == v0.ty for _, v in alts):
            return Struct(v0.ty, v0.names, cols(lambda v: v.fields, len(v0.fields)))
        if t0 is VecV and all(len(v.items) == len(v0.items) for _, v in alts):
            return VecV(cols(lambda v: v.items, len(v0.items)))
        if t0 is StringV and all(len(v.items) == len(v0.items) for _, v in alts) and all(
                all(is_scalar(v.items[i]) for _, v in alts) or all(same(v.items[i], v0.items[i]) for _, v in alts)
                for i in range(len(v0.items))):
            return StringV(cols(lambda v: v.items, len(v0.items)))
        if t0 is ValRef:
            return ValRef(merge_many([(g, v.v) for g, v in alts]))
        if t0 is BoxV and all(v.kind == v0.kind for _, v in alts):
            return BoxV(merge_many([(g, v.v) for g, v in alts]), v0.kind)
    return mk_union(alts)


def alts_of(v):
    """view any value as a list of (guard, non-union value)"""
    if isinstance(v, Union):
        return v.alts
    return [(True, v)]


def umap(f, v):
    """apply f to every alternative of v, re-merging the results"""
    if isinstance(v, Union):
        return merge_many([(g, f(x)) for g, x in v.alts])
    return f(v)


def flatten_value(v, limit=2000):
    """all union-free instances of v: [(guard, value)] (cross product over nested unions)"""
    def go(x):
        if isinstance(x, Union):
            out = []
            for g, y in x.alts:
                for g2, z in go(y):
                    out.append((b_and(g, g2), z))
            return out
        if isinstance(x, tuple):
            return prod(list(x), lambda fs: tuple(fs))
        if isinstance(x, Adt):
            return prod(list(x.fields), lambda fs: Adt(x.ty, x.variant, fs))
        if isinstance(x, Struct):
            return prod(list(x.fields), lambda fs: Struct(x.ty, x.names, fs))
        if isinstance(x, VecV):
            return prod(list(x.items), lambda fs: VecV(fs))
        if isinstance(x, BoxV):
            return [(g, BoxV(y, x.kind)) for g, y in go(x.v)]
        if isinstance(x, ValRef):
            return [(g, ValRef(y)) for g, y in go(x.v)]
        return [(True, x)]

    def prod(fields, mk):
        acc = [(True, [])]
        for f in fields:
            alts = go(f)
            if len(alts) == 1 and alts[0][0] is True:
                for a in acc:
                    a[1].append(alts[0][1])
                continue
            nxt = []
            for g, done in acc:
                for g2, y in alts:
                    gg = b_and(g, g2)
                    if gg is not False:
                        nxt.append((gg, done + [y]))
            acc = nxt
            if len(acc) > limit:
                raise ValueError("too many union instances")
        return [(g, mk(fs)) for g, fs in acc]
    return go(v)
