# Convenience layer over Engine M: program loading, symbolic inputs, entry points.
import z3
from .interp import Program, Interp, St, Unsupported, parse_path
from .values import *

_fresh = [0]


def sym_char(name=None):
    _fresh[0] += 1
    return z3.BitVec(name or "c%d" % _fresh[0], 32)


def char_valid(c):
    """Unicode scalar value"""
    return z3.And(z3.ULT(c, 0x110000), z3.Not(z3.And(z3.UGE(c, 0xD800), z3.ULE(c, 0xDFFF))))


def make_input(spec):
    """spec: list of items, each a str (concrete text) or a z3 BitVec32 term.  -> StrSlice"""
    chars = []
    for x in spec:
        if isinstance(x, str):
            chars.extend(ord(c) for c in x)
        else:
            chars.append(x)
    b = SymBuf(chars, name="input")
    return StrSlice(b, 0, len(chars))


class Engine:
    def __init__(self, mir_path, repo_dir, profile="dev"):
        self.P = Program(open(mir_path).read(), repo_dir)
        self.profile = profile
        self.I = Interp(self.P, profile)

    def fresh(self):
        self.I = Interp(self.P, self.profile)
        return self.I

    def parse(self, inp, st=None):
        """run find_parser::parse on an input StrSlice -> [(guard, value|Panic)]"""
        st = st or St()
        outs = self.I.call("find_parser::parse", [inp], st, None) if False else \
            self.I.call_fn(*self._resolve("find_parser::parse", {"S": "&str"}), st=st, args=[inp])
        n0 = len(st.pc)
        return [(b_and(*s.pc[n0:]), v, s) for s, v in outs]

    def _resolve(self, name, env):
        r = self.P.resolve_fn(parse_path(name))
        if r is None:
            raise Unsupported("no function " + name)
        f, b = r
        b = dict(b)
        b.update(env)
        return f, b
