# Model of winnow 0.6.7 (big-step, guarded): written from the crate's source in the cargo registry.
#   run(p, stream, st) -> [(guard, outcome)]   outcome = ('ok', value, stream')
#                                                      | ('err', mode, ctx, stream')   mode in Backtrack/Cut
#                                                      | ('panic', Panic)
# ctx is the ContextError's context Vec (tuple of StrContext values, in push order); `cause` is kept
# as a flag only.  The position where the input is left on failure is kept faithfully because the
# crate re-lexes "the next word" from there when it renders the error.
import re
import z3
from .values import *
from . import interp as _interp

U32 = 32


class P:
    """a winnow parser object"""
    __slots__ = ("kind", "a")

    def __init__(self, kind, *a):
        self.kind, self.a = kind, a

    def __repr__(self):
        return "P<%s>" % self.kind


def chr_eq(c, lit):
    if isinstance(c, int):
        return c == lit
    return c == z3.BitVecVal(lit, U32)


def chr_in(c, lo, hi):
    if isinstance(c, int):
        return lo <= c <= hi
    return z3.And(z3.UGE(c, lo), z3.ULE(c, hi))


def is_digit(c):
    return chr_in(c, 48, 57)


def is_alpha(c):
    return b_or(chr_in(c, 65, 90), chr_in(c, 97, 122))


def is_multispace(c):
    return b_or(chr_eq(c, 32), chr_eq(c, 9), chr_eq(c, 13), chr_eq(c, 10))


EMPTY_CTX = ()


def ok(v, s):
    return ("ok", v, s)


def err(mode, ctx, s):
    return ("err", mode, ctx, s)


class Winnow:
    def __init__(self, I):
        self.I = I
        self.memo = {}
        self.stats = dict(runs=0, memo_hits=0)
        # number of parser-function activations the real (non-memoising) parser performs: a memo hit adds the recorded cost of the
        # activation it stands for, so exponential re-parsing shows as a number although the model itself stays polynomial
        self.work = 0
        self.memo_cost = {}

    # --------------------------------------------------------------- stream helpers
    def s_len(self, s):
        return len(s)

    def s_at(self, s, i):
        if isinstance(s, StrSlice):
            return s.buf.chars[s.start + i]
        return s.items[s.start + i]

    def s_from(self, s, i):
        if isinstance(s, StrSlice):
            return StrSlice(s.buf, s.start + i, s.end)
        return SliceV(s.items, s.start + i, s.end, s.id)

    def s_take(self, s, i):
        if isinstance(s, StrSlice):
            return StrSlice(s.buf, s.start, s.start + i)
        return SliceV(s.items, s.start, s.start + i, s.id)

    # --------------------------------------------------------------- generic plumbing
    def norm(self, outs, st):
        """drop infeasible outcomes, merge outcomes that agree on kind / mode / position"""
        groups = {}
        order = []
        for g, o in outs:
            g = b_simpl(g)
            if g is False:
                continue
            if o[0] == "ok":
                k = ("ok", o[2].key())
            elif o[0] == "err":
                k = ("err", o[1], o[3].key())
            else:
                k = ("panic", o[1].msg, o[1].site)
            if k not in groups:
                groups[k] = []
                order.append(k)
            groups[k].append((g, o))
        res = []
        for k in order:
            items = groups[k]
            if len(items) == 1:
                res.append(items[0])
                continue
            g = b_or(*[x for x, _ in items])
            o0 = items[0][1]
            if o0[0] == "ok":
                res.append((g, ok(merge_many([(x, o[1]) for x, o in items]), o0[2])))
            elif o0[0] == "err":
                res.append((g, err(o0[1], merge_many([(x, o[2]) for x, o in items]), o0[3])))
            else:
                res.append((g, o0))
        return res

    def prune(self, outs, st):
        if len(outs) <= 1:
            return outs
        return [(g, o) for g, o in outs if g is True or self.I.feasible(st.pc, g)]

    def then(self, outs, f, st):
        """sequencing: for every ok outcome continue with f(value, stream) -> outs"""
        res = []
        for g, o in outs:
            if o[0] != "ok":
                res.append((g, o))
                continue
            if g is not True and not self.I.feasible(st.pc, g):
                continue
            st2 = st if g is True else st.fork(g)
            for g2, o2 in f(o[1], o[2], st2):
                res.append((b_and(g, g2), o2))
        return res

    def call(self, f, args, st):
        """call a closure / fn value from parser context: -> [(guard, value | Panic)]"""
        outs = self.I.call_value(f, args, st)
        n0 = len(st.pc)
        return [(b_and(*s.pc[n0:]), v) for s, v in outs]

    # --------------------------------------------------------------- the interpreter of parsers
    def run(self, p, s, st):
        self.stats["runs"] += 1
        if isinstance(s, Union):
            res = []
            for g, x in s.alts:
                if not self.I.feasible(st.pc, g):
                    continue
                for g2, o in self.run(p, x, st.fork(g)):
                    res.append((b_and(g, g2), o))
            return self.norm(res, st)
        if isinstance(p, (ValRef, BoxV)):
            return self.run(p.v, s, st)
        if isinstance(p, Ref):
            return self.run(self.I.read_ref(p, st), s, st)
        if isinstance(p, StrSlice):
            return self.lit(p.chars(), s)
        if isinstance(p, int) and not isinstance(p, bool):
            return self.lit([p], s)
        if isinstance(p, tuple):
            return self.norm(self.seq(list(p), s, st), st)
        if isinstance(p, FnItem):
            return self.run_fnitem(p, s, st)
        if isinstance(p, Closure):
            return self.run_closure(p, s, st)
        if isinstance(p, Union):
            res = []
            for g, x in p.alts:
                for g2, o in self.run(x, s, st.fork(g)):
                    res.append((b_and(g, g2), o))
            return self.norm(res, st)
        if not isinstance(p, P):
            raise _interp.Unsupported("not a parser: %r" % (p,))
        h = getattr(self, "p_" + p.kind)
        return self.norm(h(s, st, *p.a), st)

    # ---- crate functions used as parsers
    def run_fnitem(self, p, s, st):
        path = _interp.parse_path(p.path)
        h = self.I.find_intrinsic(path)
        if h is not None and getattr(h, "parser_ctor", None):
            return self.run(h.parser_ctor(self.I, path), s, st)
        r = self.I.P.resolve_fn(path)
        if r is None:
            raise _interp.Unsupported("parser fn item %s" % p.path[:120])
        f, env = r
        return self.run_mir(f, env, [], s, st)

    def run_closure(self, p, s, st):
        name = self.I.P.closure_by_span.get(p.span)
        if name is None:
            raise _interp.Unsupported("closure parser body " + p.span)
        f = self.I.P.funcs[name]
        selfv = p if not f.args[0][1].startswith("&") else ValRef(p)
        return self.run_mir(f, dict(p.env), [selfv], s, st)

    def run_mir(self, f, env, pre_args, s, st):
        """execute a MIR function of shape fn(.., &mut Stream) -> PResult<O>"""
        key = None
        if not pre_args:
            key = (f.name, tuple(sorted(env.items())), s.key())
            hit = self.memo.get(key)
            if hit is not None:
                self.stats["memo_hits"] += 1
                self.work += self.memo_cost.get(key, 1)
                return hit
        w0 = self.work
        self.work += 1
        cell = ("tmp", id(object()), self.stats["runs"])
        st2 = st.fork()
        st2.pc = ()            # explore with an empty path condition so that the result is reusable
        st2.store[cell] = s
        self.I.stats["fns"].add(f.name)
        paths = self.I.exec_fn(f, list(pre_args) + [Ref(cell)], st2, env)
        res = []
        for s3, v in paths:
            g = b_and(*s3.pc)
            if isinstance(v, Panic):
                res.append((g, ("panic", v)))
                continue
            pos = s3.store.get(cell)
            for gv, rv in alts_of(v):
                for gp, sp in alts_of(pos):
                    gg = b_and(g, gv, gp)
                    if gg is False:
                        continue
                    for g4, o4 in self.result_to_outcomes(rv, sp):
                        res.append((b_and(gg, g4), o4))
        res = self.norm(res, st)
        if key is not None:
            self.memo[key] = res
            self.memo_cost[key] = self.work - w0
        return res

    def result_to_outcomes(self, rv, sp):
        if not isinstance(rv, Adt) or rv.ty != "Result":
            raise _interp.Unsupported("parser returned %r" % (rv,))
        if rv.variant == "Ok":
            return [(True, ok(rv.fields[0], sp))]
        out = []
        for g, e in alts_of(rv.fields[0]):
            for g2, ce in alts_of(e.fields[0]):
                out.append((b_and(g, g2), err(e.variant, self.ctx_of(ce), sp)))
        return out

    def ctx_of(self, ce):
        # ContextError value -> context tuple
        if isinstance(ce, Struct) and ce.ty == "ContextError":
            return ce.fields[0]
        raise _interp.Unsupported("ContextError value %r" % (ce,))

    def mk_ctxerr(self, ctx, cause=False):
        return Struct("ContextError", ("context", "cause"), (ctx, cause))

    def outcome_to_result(self, o):
        if o[0] == "ok":
            return Adt("Result", "Ok", [o[1]])
        return Adt("Result", "Err", [Adt("ErrMode", o[1], [self.mk_ctxerr(o[2])])])

    # ---- leaves
    def lit(self, chars, s):
        n = len(chars)
        if len(s) < n:
            return [(True, err("Backtrack", EMPTY_CTX, s))]
        g = b_and(*[chr_eq(self.s_at(s, i), c) for i, c in enumerate(chars)])
        return [(g, ok(self.s_take(s, n), self.s_from(s, n))), (b_not(g), err("Backtrack", EMPTY_CTX, s))]

    def p_literal(self, s, st, lit):
        if isinstance(lit, ValRef):
            lit = lit.v
        if isinstance(lit, StrSlice):
            return self.lit(lit.chars(), s)
        if isinstance(lit, int):
            return self.lit([lit], s)
        raise _interp.Unsupported("literal %r" % (lit,))

    def p_any(self, s, st):
        if len(s) == 0:
            return [(True, err("Backtrack", EMPTY_CTX, s))]
        return [(True, ok(self.s_at(s, 0), self.s_from(s, 1)))]

    def p_eof(self, s, st):
        if len(s) == 0:
            return [(True, ok(self.s_take(s, 0), s))]
        return [(True, err("Backtrack", EMPTY_CTX, s))]

    def p_fail(self, s, st):
        return [(True, err("Backtrack", EMPTY_CTX, s))]

    def contains(self, set_, tok, st):
        """ContainsToken::contains_token(set, tok) -> [(guard, bool-ish | Panic)]"""
        if isinstance(set_, ValRef):
            set_ = set_.v
        if isinstance(set_, (Closure, FnItem)):
            return self.call(set_, [tok], st)
        if isinstance(set_, int):
            return [(True, chr_eq(tok, set_))]
        if isinstance(set_, tuple):
            # tuples of sets / ranges
            acc = False
            for x in set_:
                r = self.contains(x, tok, st)
                if len(r) != 1:
                    raise _interp.Unsupported("nested contains fork")
                acc = b_or(acc, r[0][1])
            return [(True, acc)]
        if isinstance(set_, Struct) and set_.ty == "RangeInclusive":
            return [(True, chr_in(tok, set_.fields[0], set_.fields[1]))]
        if isinstance(set_, (Adt, Union)):
            # crate impl: <T as ContainsToken<T>>::contains_token(&set, tok)
            ty = set_.ty if isinstance(set_, Adt) else alts_of(set_)[0][1].ty
            path = _interp.parse_path("<%s as winnow::stream::ContainsToken<%s>>::contains_token" % (ty, ty))
            r = self.I.P.resolve_fn(path)
            if r is None:
                raise _interp.Unsupported("ContainsToken impl for " + ty)
            outs = self.I.call_fn(r[0], [ValRef(set_), tok], st, r[1])
            n0 = len(st.pc)
            return [(b_and(*s.pc[n0:]), v) for s, v in outs]
        if isinstance(set_, StrSlice):
            return [(True, b_or(*[chr_eq(tok, c) for c in set_.chars()]))]
        if isinstance(set_, SliceV):
            # [char; N] / &[char]
            acc = False
            for x in set_.elems():
                r = self.contains(x, tok, st)
                if len(r) != 1:
                    raise _interp.Unsupported("nested contains fork")
                acc = b_or(acc, r[0][1])
            return [(True, acc)]
        raise _interp.Unsupported("token set %r" % (set_,))

    def pred_guard(self, set_, tok, st):
        """single Bool guard for `set contains tok`; panics inside predicates are not expected"""
        r = self.contains(set_, tok, st)
        acc = False
        for g, v in r:
            if isinstance(v, Panic):
                raise _interp.Unsupported("panic inside token predicate")
            acc = b_or(acc, b_and(g, v))
        return b_simpl(acc) if is_sym(acc) else acc

    def p_one_of(self, s, st, set_):
        if len(s) == 0:
            return [(True, err("Backtrack", EMPTY_CTX, s))]
        t = self.s_at(s, 0)
        res = []
        for ga, ta in alts_of(t):
            g = self.pred_guard(set_, ta, st if ga is True else st.fork(ga))
            res.append((b_and(ga, g), ok(ta, self.s_from(s, 1))))
            res.append((b_and(ga, b_not(g)), err("Backtrack", EMPTY_CTX, s)))
        return res

    def p_verify(self, s, st, inner, pred):
        def k(v, s2, st2):
            r = []
            for g, b in self.call(pred, [ValRef(v)], st2):
                if isinstance(b, Panic):
                    r.append((g, ("panic", b)))
                else:
                    r.append((b_and(g, b), ok(v, s2)))
                    r.append((b_and(g, b_not(b)), err("Backtrack", EMPTY_CTX, s)))
            return r
        return self.then(self.run(inner, s, st), k, st)

    def take_while(self, s, st, m, n, pred):
        """pred: token -> guard.  n None = unbounded"""
        L = len(s)
        res = []
        prefix = True           # all tokens before position e satisfy pred
        hi = L if n is None else min(L, n)
        gs = []
        for i in range(hi):
            gs.append(pred(self.s_at(s, i)))
        for e in range(0, hi + 1):
            # stop at e: tokens 0..e-1 match, and (e == hi or token e does not match)
            if e < hi:
                stop = b_not(gs[e])
            else:
                stop = True
            g = b_and(prefix, stop)
            if g is not False:
                if e >= m:
                    res.append((g, ok(self.s_take(s, e), self.s_from(s, e))))
                else:
                    res.append((g, err("Backtrack", EMPTY_CTX, s)))
            if e < hi:
                prefix = b_and(prefix, gs[e])
                if prefix is False:
                    break
        return res

    def p_take_while(self, s, st, rng, set_):
        m, n = rng
        return self.take_while(s, st, m, n, lambda t: self.pred_guard(set_, t, st))

    def p_take_till(self, s, st, rng, set_):
        m, n = rng
        return self.take_while(s, st, m, n, lambda t: b_not(self.pred_guard(set_, t, st)))

    def p_take_escaped(self, s, st, normal, ctrl, escapable):
        """ascii::take_escaped (winnow 0.6.7 complete_escaped_internal): runs of `normal`, each control character followed by
        `escapable`; stops (returning the recognised slice) where neither applies, where `normal` makes no progress, or at the end"""
        start = s
        if isinstance(ctrl, ValRef):
            ctrl = ctrl.v

        def fin(cur):
            k = len(start) - len(cur)
            return ok(self.s_take(start, k), self.s_from(start, k))

        def live(st0, g):
            if g is False or (g is not True and not self.I.feasible(st0.pc, g)):
                return None
            return st0 if g is True else st0.fork(g)

        def loop(cur, st2):
            if len(cur) == 0:
                return [(True, fin(cur))]
            res = []
            for g, o in self.run(normal, cur, st2):
                st3 = live(st2, g)
                if st3 is None:
                    continue
                if o[0] == "ok":
                    if o[2].key() == cur.key():
                        res.append((g, fin(cur)))
                    else:
                        res.extend((b_and(g, g2), o2) for g2, o2 in loop(o[2], st3))
                elif o[0] == "err" and o[1] == "Backtrack":
                    for g1, o1 in self.lit([ctrl], cur):
                        st4 = live(st3, g1)
                        if st4 is None:
                            continue
                        if o1[0] != "ok":
                            res.append((b_and(g, g1), fin(cur)))
                            continue
                        for g2, o2 in self.run(escapable, o1[2], st4):
                            st5 = live(st4, g2)
                            if st5 is None:
                                continue
                            if o2[0] == "ok":
                                res.extend((b_and(g, g1, g2, g3), o3) for g3, o3 in loop(o2[2], st5))
                            else:
                                res.append((b_and(g, g1, g2), o2))
                else:
                    res.append((g, o))
            return res
        return loop(s, st)

    def p_take(self, s, st, count):
        """token::take(count): exactly `count` tokens (characters of a &str), Backtrack when fewer remain"""
        from .stdmodel import ByteLen
        res = []
        L = len(s)
        for g0, c in alts_of(count):
            if isinstance(c, ByteLen):
                c = c.term()
            if isinstance(c, int):
                if c <= L:
                    res.append((g0, ok(self.s_take(s, c), self.s_from(s, c))))
                else:
                    res.append((g0, err("Backtrack", EMPTY_CTX, s)))
                continue
            for e in range(L + 1):
                res.append((b_and(g0, c == z3.BitVecVal(e, c.size())), ok(self.s_take(s, e), self.s_from(s, e))))
            res.append((b_and(g0, z3.UGT(c, z3.BitVecVal(L, c.size()))), err("Backtrack", EMPTY_CTX, s)))
        return res

    def p_take_until(self, s, st, rng, needle):
        m, n = rng
        if isinstance(needle, ValRef):
            needle = needle.v
        cs = needle.chars() if isinstance(needle, StrSlice) else [needle]
        if len(cs) != 1:
            raise _interp.Unsupported("take_until with multi-char needle")
        c = cs[0]
        L = len(s)
        res = []
        none_before = True
        for e in range(L):
            hit = chr_eq(self.s_at(s, e), c)
            g = b_and(none_before, hit)
            if g is not False:
                if e >= m and (n is None or e <= n):
                    res.append((g, ok(self.s_take(s, e), self.s_from(s, e))))
                else:
                    res.append((g, err("Backtrack", EMPTY_CTX, s)))
            none_before = b_and(none_before, b_not(hit))
            if none_before is False:
                break
        if none_before is not False:
            res.append((none_before, err("Backtrack", EMPTY_CTX, s)))
        return res

    def p_digit1(self, s, st):
        return self.take_while(s, st, 1, None, is_digit)

    def p_dec_uint(self, s, st, bits):
        """ascii::dec_uint::<_, uN, _>: `0` alone, or [1-9][0-9]* whose value fits uN (verify_map: Backtrack otherwise)"""
        from .stdmodel import parse_uint
        if len(s) == 0:
            return [(True, err("Backtrack", EMPTY_CTX, s))]
        c0 = self.s_at(s, 0)
        g0 = chr_eq(c0, 48)
        g19 = (49 <= c0 <= 57) if isinstance(c0, int) else z3.And(z3.UGE(c0, 49), z3.ULE(c0, 57))
        res = []
        if g0 is not False:
            res.append((g0, ok(0, self.s_from(s, 1))))
        if g19 is not False:
            for g, o in self.take_while(self.s_from(s, 1), st, 0, None, is_digit):
                gg = b_and(g19, g)
                if gg is False or o[0] != "ok":
                    continue
                e = len(s) - len(o[2])
                items = [self.s_at(s, i) for i in range(e)]
                for gp, r in parse_uint(self.I, items, bits, 10):
                    g3 = b_and(gg, gp)
                    if g3 is False:
                        continue
                    if r.variant == "Ok":
                        res.append((g3, ok(r.fields[0], o[2])))
                    else:
                        res.append((g3, err("Backtrack", EMPTY_CTX, s)))
        res.append((b_not(b_or(g0, g19)), err("Backtrack", EMPTY_CTX, s)))
        return res

    def p_alpha1(self, s, st):
        return self.take_while(s, st, 1, None, is_alpha)

    def p_multispace0(self, s, st):
        return self.take_while(s, st, 0, None, is_multispace)

    def p_multispace1(self, s, st):
        return self.take_while(s, st, 1, None, is_multispace)

    # ---- sequencing
    def seq(self, ps, s, st):
        """tuple of parsers -> tuple of outputs"""
        def go(i, acc, s2, st2):
            if i == len(ps):
                return [(True, ok(tuple(acc), s2))]
            return self.then(self.run(ps[i], s2, st2), lambda v, s3, st3: go(i + 1, acc + [v], s3, st3), st2)
        return go(0, [], s, st)

    def p_preceded(self, s, st, a, b):
        return self.then(self.run(a, s, st), lambda _v, s2, st2: self.run(b, s2, st2), st)

    def p_terminated(self, s, st, a, b):
        return self.then(self.run(a, s, st),
                         lambda v, s2, st2: self.then(self.run(b, s2, st2), lambda _w, s3, st3: [(True, ok(v, s3))], st2), st)

    def p_delimited(self, s, st, a, b, c):
        return self.then(self.run(a, s, st), lambda _v, s2, st2: self.run(P("terminated", b, c), s2, st2), st)

    def p_separated_pair(self, s, st, a, sep, b):
        return self.then(self.run(a, s, st),
                         lambda v, s2, st2: self.then(self.run(sep, s2, st2),
                                                      lambda _x, s3, st3: self.then(self.run(b, s3, st3), lambda w, s4, st4: [(True, ok((v, w), s4))], st3), st2), st)

    # ---- error handling
    def p_cut_err(self, s, st, a):
        return [(g, o if o[0] != "err" else err("Cut", o[2], o[3])) for g, o in self.run(a, s, st)]

    def p_peek(self, s, st, a):
        """peek: the inner result, with the input put back where it was (on success and on failure)"""
        res = []
        for g, o in self.run(a, s, st):
            if o[0] == "ok":
                res.append((g, ok(o[1], s)))
            elif o[0] == "err":
                res.append((g, err(o[1], o[2], s)))
            else:
                res.append((g, o))
        return res

    def p_opt(self, s, st, a):
        """opt: Some(value) | None on Backtrack (input reset); Cut errors pass"""
        res = []
        for g, o in self.run(a, s, st):
            if o[0] == "ok":
                res.append((g, ok(Adt("Option", "Some", [o[1]]), o[2])))
            elif o[0] == "err" and o[1] == "Backtrack":
                res.append((g, ok(Adt("Option", "None"), s)))
            else:
                res.append((g, o))
        return res

    def p_not(self, s, st, a):
        """not: succeeds (unit, no input consumed) exactly when the inner parser backtracks"""
        res = []
        for g, o in self.run(a, s, st):
            if o[0] == "ok":
                res.append((g, err("Backtrack", EMPTY_CTX, s)))
            elif o[0] == "err" and o[1] == "Backtrack":
                res.append((g, ok((), s)))
            else:
                res.append((g, o))
        return res

    def ctx_push(self, ctx, c):
        return umap(lambda t: t + (c,), ctx)

    def p_context(self, s, st, a, c):
        return [(g, o if o[0] != "err" else err(o[1], self.ctx_push(o[2], c), o[3])) for g, o in self.run(a, s, st)]

    def p_alt(self, s, st, alts):
        res = []
        pending = True          # guard: all previous alternatives backtracked
        n = len(alts)
        last_err = None
        for i, a in enumerate(alts):
            if pending is False:
                break
            if pending is not True and not self.I.feasible(st.pc, pending):
                pending = False
                break
            st2 = st if pending is True else st.fork(pending)
            outs = self.run(a, s, st2)
            nxt = False
            errs = []
            for g, o in outs:
                gg = b_and(pending, g)
                if gg is False:
                    continue
                if o[0] == "err" and o[1] == "Backtrack":
                    nxt = b_or(nxt, gg)
                    errs.append((gg, o))
                else:
                    res.append((gg, o))
            if i == n - 1:
                # after the last alternative the input is NOT reset; the error is the last one (`or` keeps other)
                for gg, o in errs:
                    res.append((gg, o))
                nxt = False
            pending = nxt
        return res

    # ---- mapping
    def p_map(self, s, st, a, f):
        def k(v, s2, st2):
            r = []
            for g, w in self.call(f, [v], st2):
                r.append((g, ("panic", w) if isinstance(w, Panic) else ok(w, s2)))
            return r
        return self.then(self.run(a, s, st), k, st)

    def p_value(self, s, st, a, v):
        return [(g, ok(v, o[2]) if o[0] == "ok" else o) for g, o in self.run(a, s, st)]

    def p_try_map(self, s, st, a, f):
        def k(v, s2, st2):
            r = []
            for g, w in self.call(f, [v], st2):
                if isinstance(w, Panic):
                    r.append((g, ("panic", w)))
                    continue
                for gw, x in alts_of(w):
                    if x.variant == "Ok":
                        r.append((b_and(g, gw), ok(x.fields[0], s2)))
                    else:
                        r.append((b_and(g, gw), err("Backtrack", EMPTY_CTX, s)))
            return r
        return self.then(self.run(a, s, st), k, st)

    def p_verify_map(self, s, st, a, f):
        # winnow 0.6.7 VerifyMap: f(output) -> Option<O2>; None is a Backtrack error at the start of the input
        def k(v, s2, st2):
            r = []
            for g, w in self.call(f, [v], st2):
                if isinstance(w, Panic):
                    r.append((g, ("panic", w)))
                    continue
                for gw, x in alts_of(w):
                    if x.variant == "Some":
                        r.append((b_and(g, gw), ok(x.fields[0], s2)))
                    else:
                        r.append((b_and(g, gw), err("Backtrack", EMPTY_CTX, s)))
            return r
        return self.then(self.run(a, s, st), k, st)

    def p_and_then(self, s, st, outer, inner):
        def k(v, s2, st2):
            r = []
            for g, o in self.run(inner, v, st2):
                if o[0] == "ok":
                    r.append((g, ok(o[1], s2)))
                elif o[0] == "err":
                    r.append((g, err(o[1], o[2], s)))
                else:
                    r.append((g, o))
            return r
        return self.then(self.run(outer, s, st), k, st)

    # ---- repetition
    def assert_fail(self, s, what):
        if self.I.profile == "dev":
            return ("panic", Panic("assert `%s` failed" % what, "winnow::assert"))
        return err("Cut", EMPTY_CTX, s)

    def rep_loop(self, f, s, st, count, m, n, acc, accf):
        """common loop of repeat*/fold: returns outcomes with value=acc"""
        if n is not None and count >= n:
            return [(True, ok(acc, s))]
        res = []
        for g, o in self.run(f, s, st):
            if g is not True and not self.I.feasible(st.pc, g):
                continue
            st2 = st if g is True else st.fork(g)
            if o[0] == "ok":
                if o[2].key() == s.key():
                    res.append((g, self.assert_fail(s, "`repeat` parsers must always consume")))
                    continue
                for g2, acc2 in accf(acc, o[1], st2):
                    if isinstance(acc2, Panic):
                        res.append((b_and(g, g2), ("panic", acc2)))
                        continue
                    for g3, o3 in self.rep_loop(f, o[2], st2, count + 1, m, n, acc2, accf):
                        res.append((b_and(g, g2, g3), o3))
            elif o[0] == "err" and o[1] == "Backtrack":
                if count < m:
                    res.append((g, err("Backtrack", o[2], o[3])))
                else:
                    res.append((g, ok(acc, s)))
            else:
                res.append((g, o))
        return res

    def acc_vec(self, kind):
        if kind == "Vec":
            return VecV(()), lambda acc, v, st: [(True, VecV(acc.items + (v,)))]
        if kind == "String":
            return StringV(()), lambda acc, v, st: [(True, StringV(acc.items + (v,)))]
        if kind == "()":
            return (), lambda acc, v, st: [(True, ())]
        if kind == "usize":
            return 0, lambda acc, v, st: [(True, acc + 1)]
        raise _interp.Unsupported("repeat accumulator " + kind)

    def p_repeat_pending(self, s, st, rng, f, kind):
        if kind is None:
            raise _interp.Unsupported("repeat without accumulator type")
        return self.p_repeat(s, st, rng, f, kind)

    def p_repeat(self, s, st, rng, f, kind):
        m, n = rng
        acc, accf = self.acc_vec(kind)
        return self.rep_loop(f, s, st, 0, m, n, acc, accf)

    def p_fold(self, s, st, rng, f, init, op):
        m, n = rng
        res = []
        for g, acc in self.call(init, [], st):
            if isinstance(acc, Panic):
                res.append((g, ("panic", acc)))
                continue
            accf = lambda a, v, st2: self.call(op, [a, v], st2)
            for g2, o in self.rep_loop(f, s, st if g is True else st.fork(g), 0, m, n, acc, accf):
                res.append((b_and(g, g2), o))
        return res

    def p_repeat_till(self, s, st, rng, f, gterm, kind):
        m, n = rng
        acc0, accf = self.acc_vec(kind)

        def loop(s2, st2, count, acc):
            res = []
            if count < m:
                # the first `m` iterations run f without trying the terminator
                for g, o in self.run(f, s2, st2):
                    if g is not True and not self.I.feasible(st2.pc, g):
                        continue
                    st3 = st2 if g is True else st2.fork(g)
                    if o[0] == "ok":
                        for g2, acc2 in accf(acc, o[1], st3):
                            for g3, o3 in loop(o[2], st3, count + 1, acc2):
                                res.append((b_and(g, g2, g3), o3))
                    else:
                        res.append((g, o))
                return res
            for g, o in self.run(gterm, s2, st2):
                if g is not True and not self.I.feasible(st2.pc, g):
                    continue
                st3 = st2 if g is True else st2.fork(g)
                if o[0] == "ok":
                    res.append((g, ok((acc, o[1]), o[2])))
                elif o[0] == "err" and o[1] == "Backtrack":
                    if n is not None and count == n:
                        res.append((g, o))
                        continue
                    for g1, o1 in self.run(f, s2, st3):
                        if g1 is not True and not self.I.feasible(st3.pc, g1):
                            continue
                        st4 = st3 if g1 is True else st3.fork(g1)
                        if o1[0] == "ok":
                            if o1[2].key() == s2.key():
                                res.append((b_and(g, g1), self.assert_fail(s2, "`repeat` parsers must always consume")))
                                continue
                            for g2, acc2 in accf(acc, o1[1], st4):
                                for g3, o3 in loop(o1[2], st4, count + 1, acc2):
                                    res.append((b_and(g, g1, g2, g3), o3))
                        else:
                            res.append((b_and(g, g1), o1))
                else:
                    res.append((g, o))
            return res
        return loop(s, st, 0, acc0)

    def p_separated(self, s, st, rng, f, sep, kind):
        m, n = rng
        if n is not None or m not in (0, 1):
            raise _interp.Unsupported("separated range %r" % (rng,))
        acc0, accf = self.acc_vec(kind)

        def tail(s2, st2, acc):
            res = []
            for g, o in self.run(sep, s2, st2):
                if g is not True and not self.I.feasible(st2.pc, g):
                    continue
                st3 = st2 if g is True else st2.fork(g)
                if o[0] == "ok":
                    if o[2].key() == s2.key():
                        res.append((g, self.assert_fail(s2, "`separated` separator parser must always consume")))
                        continue
                    for g1, o1 in self.run(f, o[2], st3):
                        if g1 is not True and not self.I.feasible(st3.pc, g1):
                            continue
                        st4 = st3 if g1 is True else st3.fork(g1)
                        if o1[0] == "ok":
                            for g2, acc2 in accf(acc, o1[1], st4):
                                for g3, o3 in tail(o1[2], st4, acc2):
                                    res.append((b_and(g, g1, g2, g3), o3))
                        elif o1[0] == "err" and o1[1] == "Backtrack":
                            res.append((b_and(g, g1), ok(acc, s2)))
                        else:
                            res.append((b_and(g, g1), o1))
                elif o[0] == "err" and o[1] == "Backtrack":
                    res.append((g, ok(acc, s2)))
                else:
                    res.append((g, o))
            return res

        res = []
        for g, o in self.run(f, s, st):
            if g is not True and not self.I.feasible(st.pc, g):
                continue
            st2 = st if g is True else st.fork(g)
            if o[0] == "ok":
                for g2, acc2 in accf(acc0, o[1], st2):
                    for g3, o3 in tail(o[2], st2, acc2):
                        res.append((b_and(g, g2, g3), o3))
            elif o[0] == "err" and o[1] == "Backtrack" and m == 0:
                res.append((g, ok(acc0, s)))
            else:
                res.append((g, o))
        return res


# --------------------------------------------------------------------------- registration
def rng_of(v):
    """RangeFrom / Range / RangeInclusive / usize -> (min, max or None)"""
    if isinstance(v, int):
        return (v, v)
    if isinstance(v, Struct):
        if v.ty == "RangeFrom":
            return (v.fields[0], None)
        if v.ty == "RangeInclusive":
            return (v.fields[0], v.fields[1])
        if v.ty == "Range":
            return (v.fields[0], v.fields[1] - 1)
        if v.ty == "RangeFull":
            return (0, None)
    raise _interp.Unsupported("range %r" % (v,))


def register(I):
    W = I.winnow = Winnow(I)
    R = I.intrinsics

    def ctor(kind, nargs=None, pick=None):
        def h(I, st, args, info):
            a = args if pick is None else pick(args, info)
            return P(kind, *a)
        h.__name__ = "winnow_" + kind
        return h

    R["combinator::alt"] = ctor("alt", pick=lambda a, i: (list(a[0]),))
    R["combinator::preceded"] = ctor("preceded")
    R["combinator::terminated"] = ctor("terminated")
    R["combinator::delimited"] = ctor("delimited")
    R["combinator::separated_pair"] = ctor("separated_pair")
    R["combinator::cut_err"] = ctor("cut_err")
    def h_trace(I, st, args, info):
        return args[1]                 # trace(name, parser): the parser itself
    R["combinator::trace"] = h_trace
    R["trace::trace"] = h_trace
    R["trace"] = h_trace
    R["::trace"] = h_trace
    R["combinator::peek"] = ctor("peek")
    R["combinator::opt"] = ctor("opt")
    R["combinator::not"] = ctor("not")
    R["token::literal"] = ctor("literal")
    R["token::one_of"] = ctor("one_of")
    R["token::take_while"] = ctor("take_while", pick=lambda a, i: (rng_of(a[0]), a[1]))
    R["token::take_till"] = ctor("take_till", pick=lambda a, i: (rng_of(a[0]), a[1]))
    R["token::take"] = ctor("take", pick=lambda a, i: (a[0],))
    R["ascii::take_escaped"] = ctor("take_escaped", pick=lambda a, i: (a[0], a[1], a[2]))
    R["take_escaped"] = R["ascii::take_escaped"]
    R["::take_escaped"] = R["ascii::take_escaped"]
    R["token::take_until"] = ctor("take_until", pick=lambda a, i: (rng_of(a[0]), a[1]))
    R["take_until"] = R["token::take_until"]
    R["::take_until"] = R["token::take_until"]

    def acc_kind(info, idx=2):
        """accumulator type of repeat / repeat_till / separated: generic argument #2"""
        gens = info.path.generics(-1)
        if len(gens) <= idx:
            return None
        t = _interp.short_type(gens[idx])
        if t.startswith("Vec<"):
            return "Vec"
        if t in ("String", "()", "usize"):
            return t
        raise _interp.Unsupported("accumulator type " + t)

    def h_repeat(I, st, args, info):
        return P("repeat_pending", rng_of(args[0]), args[1], acc_kind(info))
    R["combinator::repeat"] = h_repeat

    def h_repeat_till(I, st, args, info):
        k = acc_kind(info)
        if k is None:
            raise _interp.Unsupported("repeat_till accumulator: " + info.path.text[:200])
        return P("repeat_till", rng_of(args[0]), args[1], args[2], k)
    R["combinator::repeat_till"] = h_repeat_till

    def h_separated(I, st, args, info):
        k = acc_kind(info)
        if k is None:
            raise _interp.Unsupported("separated accumulator: " + info.path.text[:200])
        return P("separated", rng_of(args[0]), args[1], args[2], k)
    R["combinator::separated"] = h_separated

    def h_fold(I, st, args, info):
        rp = args[0]
        if not (isinstance(rp, P) and rp.kind == "repeat_pending"):
            raise _interp.Unsupported("fold on %r" % (rp,))
        return P("fold", rp.a[0], rp.a[1], args[1], args[2])
    R["Repeat::fold"] = h_fold

    # Parser trait adaptors
    R["Parser::map"] = ctor("map")
    R["Parser::value"] = ctor("value")
    R["Parser::try_map"] = ctor("try_map")
    R["Parser::and_then"] = ctor("and_then")
    R["Parser::verify"] = ctor("verify")
    R["Parser::verify_map"] = ctor("verify_map")
    R["Parser::context"] = ctor("context")

    def h_parse_next(I, st, args, info):
        p, inp = args
        if not isinstance(inp, Ref):
            raise _interp.Unsupported("parse_next input is not &mut: %r" % (inp,))
        if isinstance(p, P) and p.kind == "repeat_pending":
            k = p.a[2]
            if k is None:
                dt = _interp.short_type(info.dest_type() or "")
                k = "Vec" if "Vec<" in dt else "String" if "String" in dt else "()" if "<()," in dt.replace(" ", "") else None
                if k is None:
                    raise _interp.Unsupported("repeat accumulator for " + dt)
            p = P("repeat", p.a[0], p.a[1], k)
        s = I.read_ref(inp, st)
        outs = W.run(p, s, st)
        res = []
        for g, o in outs:
            if g is not True and not I.feasible(st.pc, g):
                continue
            st2 = st.fork(g)
            if o[0] == "panic":
                res.append((st2, o[1]))
                continue
            I.write_cell(inp.key, inp.path, o[2] if o[0] == "ok" else o[3], st2)
            res.append((st2, W.outcome_to_result(o)))
        if not res:
            raise _interp.Unsupported("parse_next: no feasible outcome")
        return res
    h_parse_next.union_ok = True
    R["Parser::parse_next"] = h_parse_next
    for k_ in list(R):
        if k_.startswith(("combinator::", "token::", "Parser::")) or k_ in ("Repeat::fold", "take_until", "::take_until"):
            R[k_].union_ok = True

    # leaf parsers that appear as fn items
    def leaf(kind):
        def h(I, st, args, info):
            # called directly with (&mut input): run it
            return h_parse_next(I, st, [P(kind), args[0]], info)
        h.parser_ctor = lambda I, path: P(kind)
        h.__name__ = "winnow_" + kind
        return h
    R["ascii::digit1"] = leaf("digit1")
    R["ascii::alpha1"] = leaf("alpha1")

    def h_dec_uint(I, st, args, info):
        return h_parse_next(I, st, [dec_uint_ctor(I, info.path), args[0]], info)

    def dec_uint_ctor(I, path):
        gens = path.generics(-1)
        bits = _interp.INT_TYPES.get(_interp.short_type(gens[1])) if len(gens) > 1 else None
        if bits is None:
            raise _interp.Unsupported("dec_uint output type: " + path.text[:120])
        return P("dec_uint", bits)
    h_dec_uint.parser_ctor = dec_uint_ctor
    R["ascii::dec_uint"] = h_dec_uint
    R["ascii::multispace0"] = leaf("multispace0")
    R["ascii::multispace1"] = leaf("multispace1")
    R["combinator::eof"] = leaf("eof")
    R["combinator::fail"] = leaf("fail")
    R["token::any"] = leaf("any")

    def h_is_alpha(I, st, args, info):
        return is_alpha(args[0])
    R["AsChar::is_alpha"] = h_is_alpha

    # error plumbing used directly by the crate
    def h_into_inner(I, st, args, info):
        def f(e):
            if e.variant == "Incomplete":
                return Adt("Option", "None")
            return Adt("Option", "Some", [e.fields[0]])
        return umap(f, args[0])
    R["ErrMode::into_inner"] = h_into_inner

    def h_ctx_iter(I, st, args, info):
        ce = args[0].v if isinstance(args[0], ValRef) else args[0]
        from .stdmodel import IterV
        return umap(lambda c: umap(lambda t: IterV([ValRef(x) for x in t]), W.ctx_of(c)), ce)
    R["ContextError::context"] = h_ctx_iter
