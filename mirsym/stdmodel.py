# Model of the std / core / alloc / log / bitflags entry points the crate calls (DESIGN.md 2.2).
# Every model is written against the documented behaviour; anything not listed here makes the
# query inconclusive (Unsupported), never "holds".
import re
import z3
from .values import *
from . import interp as _interp
from .interp import Unsupported, PanicExc, Outcomes

U32 = 32


class IterV:
    """an iterator value: remaining items (already evaluated) plus pending lazy adaptors"""
    __slots__ = ("items", "ops")

    def __init__(self, items, ops=()):
        self.items, self.ops = tuple(items), tuple(ops)

    def __repr__(self):
        return "iter(%d items, %d ops)" % (len(self.items), len(self.ops))


def deref(v):
    while isinstance(v, (ValRef,)):
        v = v.v
    return v


def deref_all(I, v, st):
    while True:
        if isinstance(v, ValRef):
            v = v.v
        elif isinstance(v, Ref):
            v = I.read_ref(v, st)
        elif isinstance(v, HeapBox) and st is not None and st.store.get(v.key) is not None:
            v = st.store[v.key]
        else:
            return v


def as_str_items(I, v, st):
    """items (code-point terms / Segs) of a &str, String, &String ..."""
    v = deref_all(I, v, st)
    if isinstance(v, StrSlice):
        return tuple(v.chars())
    if isinstance(v, StringV):
        return v.items
    if isinstance(v, BoxV):
        return as_str_items(I, v.v, st)
    raise Unsupported("not a string: %r" % (v,))


def opt_some(v):
    return Adt("Option", "Some", [v])


OPT_NONE = Adt("Option", "None")


def res_ok(v):
    return Adt("Result", "Ok", [v])


def res_err(v):
    return Adt("Result", "Err", [v])


def chr_eq(c, lit):
    if isinstance(c, int) and isinstance(lit, int):
        return c == lit
    if isinstance(c, int):
        c = z3.BitVecVal(c, U32)
    if isinstance(lit, int):
        lit = z3.BitVecVal(lit, U32)
    return c == lit


def struct_eq(I, a, b, st):
    """structural equality (what #[derive(PartialEq)] computes) as a guard"""
    a, b = deref_all(I, a, st), deref_all(I, b, st)
    if isinstance(a, _interp.VariantOrCtor):
        a = Adt(a.enum, a.variant, ())
    if isinstance(b, _interp.VariantOrCtor):
        b = Adt(b.enum, b.variant, ())
    if isinstance(a, Union) or isinstance(b, Union):
        acc = False
        for ga, xa in alts_of(a):
            for gb, xb in alts_of(b):
                acc = b_or(acc, b_and(ga, gb, struct_eq(I, xa, xb, st)))
        return acc
    if is_scalar(a) and is_scalar(b):
        if not is_sym(a) and not is_sym(b):
            return a == b
        return I.sym_eq(a, b)
    if isinstance(a, (StrSlice, StringV)) and isinstance(b, (StrSlice, StringV)):
        ia, ib = as_str_items(I, a, st), as_str_items(I, b, st)
        if any(isinstance(x, Seg) for x in ia + ib):
            if len(ia) == len(ib) and all(same(x, y) for x, y in zip(ia, ib)):
                return True
            raise Unsupported("string equality over formatted segments")
        if len(ia) != len(ib):
            return False          # code-point strings of different length differ
        return b_and(*[chr_eq(x, y) for x, y in zip(ia, ib)])
    if type(a) is not type(b):
        return False              # values of different shape (only arises against specification markers)
    if isinstance(a, Adt):
        if a.ty != b.ty:
            return False
        if a.variant != b.variant:
            return False
        return b_and(*[struct_eq(I, x, y, st) for x, y in zip(a.fields, b.fields)])
    if isinstance(a, Struct):
        return b_and(*[struct_eq(I, x, y, st) for x, y in zip(a.fields, b.fields)])
    if isinstance(a, tuple):
        if len(a) != len(b):
            return False
        return b_and(*[struct_eq(I, x, y, st) for x, y in zip(a, b)])
    if isinstance(a, (VecV,)):
        if len(a.items) != len(b.items):
            return False
        return b_and(*[struct_eq(I, x, y, st) for x, y in zip(a.items, b.items)])
    if isinstance(a, SliceV):
        ea, eb = a.elems(), b.elems()
        if len(ea) != len(eb):
            return False
        return b_and(*[struct_eq(I, x, y, st) for x, y in zip(ea, eb)])
    if isinstance(a, BoxV):
        return struct_eq(I, a.v, b.v, st)
    raise Unsupported("eq of %r" % (a,))


# --------------------------------------------------------------------------- number parsing
def parse_uint(I, items, bits, radix):
    """model of <uN as FromStr>::from_str / uN::from_str_radix over a code-point string.
    returns Outcomes-like list [(guard, Result value)]"""
    n = len(items)
    if any(isinstance(x, Seg) for x in items):
        raise Unsupported("number parse over formatted segments")
    if n == 0:
        return [(True, res_err(Adt("ParseIntError", None, ["Empty"])))]

    def digit_ok(c):
        if radix == 10:
            lo, hi = 48, 57
        elif radix == 8:
            lo, hi = 48, 55
        else:
            raise Unsupported("radix %d" % radix)
        if isinstance(c, int):
            return lo <= c <= hi
        return z3.And(z3.UGE(c, lo), z3.ULE(c, hi))

    def digit_val(c, w):
        if isinstance(c, int):
            return c - 48
        return z3.ZeroExt(w - 32, c) - 48 if w > 32 else z3.Extract(w - 1, 0, c) - 48

    # leading '+' is accepted (not '-' for unsigned types), but a lone sign is an error
    outs = []
    first = items[0]
    plus = chr_eq(first, 43)
    for has_plus in (False, True):
        gsign = plus if has_plus else b_not(plus)
        if gsign is False:
            continue
        ds = items[1:] if has_plus else items
        if not ds:
            outs.append((gsign, res_err(Adt("ParseIntError", None, ["InvalidDigit"]))))
            continue
        all_ok = b_and(*[digit_ok(c) for c in ds])
        if all(isinstance(c, int) for c in ds):
            if all_ok is True:
                val = int("".join(chr(c) for c in ds), radix)
                if val < (1 << bits):
                    outs.append((gsign, res_ok(val)))
                else:
                    outs.append((gsign, res_err(Adt("ParseIntError", None, ["PosOverflow"]))))
            else:
                outs.append((gsign, res_err(Adt("ParseIntError", None, ["InvalidDigit"]))))
            continue
        # symbolic digits: wide Horner evaluation (no wrap possible at this width)
        import math
        w = max(bits + 8, int(len(ds) * math.log2(radix)) + 8, 40)
        acc = z3.BitVecVal(0, w)
        for c in ds:
            acc = acc * radix + (z3.BitVecVal(digit_val(c, w), w) if isinstance(c, int) else digit_val(c, w))
        if len(ds) > 4:
            # name the value: path feasibility checks then treat it as unconstrained (an over-approximation that never
            # prunes a feasible path); the defining equation is part of every final query (I.definitions)
            I.n_defs += 1
            var = z3.BitVec("num%d_%dd" % (I.n_defs, len(ds)), w)
            I.definitions.append(var == acc)
            acc = var
        fits = z3.ULT(acc, z3.BitVecVal(1 << bits, w)) if w > bits else True
        outs.append((b_and(gsign, all_ok, fits), res_ok(z3.Extract(bits - 1, 0, acc))))
        outs.append((b_and(gsign, all_ok, b_not(fits)), res_err(Adt("ParseIntError", None, ["PosOverflow"]))))
        outs.append((b_and(gsign, b_not(all_ok)), res_err(Adt("ParseIntError", None, ["InvalidDigit"]))))
    return outs


# --------------------------------------------------------------------------- registration
def register(I):
    R = I.intrinsics

    def reg(*names):
        def d(f):
            for n in names:
                R[n] = f
            return f
        return d

    # ----------------------------------------------------------------- references / conversions
    @reg("AsRef::as_ref")
    def as_ref(I, st, args, info):
        v = deref_all(I, args[0], st)
        if isinstance(v, StrSlice):
            return v
        if isinstance(v, StringV):
            return string_as_str(v)
        if isinstance(v, BoxV):
            return ValRef(v.v)
        return ValRef(v)

    def string_as_str(v):
        if isinstance(v, StrSlice):
            return v
        b = SymBuf(v.items, name="owned")      # may contain formatted segments (ropes); parsers never see those
        return StrSlice(b, 0, len(v.items))

    @reg("Deref::deref", "DerefMut::deref_mut", "Borrow::borrow")
    def deref_(I, st, args, info):
        a = args[0]
        gv = I.read_ref(a, st) if isinstance(a, Ref) else (a.v if isinstance(a, ValRef) else a)
        if isinstance(gv, Adt) and gv.ty == "RefGuard":
            return gv.fields[0]           # Ref<'_, T> / RefMut<'_, T>: a transparent pointer to the content
        if isinstance(a, Ref) and info.path.last() == "deref_mut":
            v = I.read_ref(a, st)
            if isinstance(v, HeapBox):
                return Ref(v.key, ())
            if isinstance(v, BoxV):
                return Ref(a.key, a.path + (("box",),))
            return a              # &mut Vec<T> -> &mut [T], &mut String -> &mut str: same cell
        if isinstance(a, Ref):
            v = I.read_ref(a, st)
            if isinstance(v, HeapBox):
                return ValRef(st.store[v.key])
            if isinstance(v, BoxV):
                return Ref(a.key, a.path + (("box",),))
            if isinstance(v, VecV):
                return SliceV(v.items)
            if isinstance(v, StringV):
                return string_as_str(v)
            return a
        v = deref(a)
        if isinstance(v, StringV):
            return string_as_str(v)
        if isinstance(v, VecV):
            return SliceV(v.items)
        if isinstance(v, BoxV):
            return ValRef(v.v)
        if isinstance(v, HeapBox):
            return ValRef(st.store[v.key])
        return ValRef(v)

    @reg("Clone::clone", "ToOwned::to_owned")
    def clone(I, st, args, info):
        v = deref_all(I, args[0], st)
        if isinstance(v, StrSlice) and "to_owned" in info.path.text:
            return StringV(v.chars())
        return v

    @reg("Into::into", "From::from")
    def into(I, st, args, info):
        v = args[0]
        dt = _interp.short_type(info.dest_type() or "")
        if dt == "char" or (info.path.qself or "").strip() == "char":
            # char::from(u8) / u32::from(char)...: same scalar, widened to the 32-bit character domain
            if isinstance(v, int) or not is_sym(v):
                return v
            return z3.ZeroExt(32 - v.size(), v) if v.size() < 32 else v
        if dt in _interp.INT_TYPES and is_sym(v) and z3.is_bv(v) and v.size() < _interp.INT_TYPES[dt]:
            return z3.ZeroExt(_interp.INT_TYPES[dt] - v.size(), v)
        if info.path.last() == "into" and info.path.qself and dt:
            src = _interp.short_type(info.path.qself)
            r = I.P.resolve_fn(_interp.parse_path("<%s as From<%s>>::from" % (dt, src)), handwritten_only=True)
            if r is not None:
                return I.call_fn(r[0], args, st, dict(r[1]))
        if isinstance(v, StrSlice) and dt in ("String", "", "PathBuf", "OsString"):
            return StringV(v.chars())
        if isinstance(v, StrSlice) and dt.startswith("Box<"):
            return BoxV(StringV(v.chars()))
        if isinstance(v, StringV) and dt.startswith("Box<"):
            return BoxV(v)
        return v

    @reg("TryFrom::try_from", "TryInto::try_into")
    def try_from_int(I, st, args, info):
        """integer narrowing / widening conversions: Ok(value) iff the value fits the target type"""
        v = args[0]
        dt = _interp.short_type(info.dest_type() or "")
        m = re.search(r"Result<\s*([ui]\d+|usize|isize)\s*,", dt)
        q = _interp.short_type(info.path.qself or "").strip()
        target = m.group(1) if m else (q if info.path.last() == "try_from" and q in _interp.INT_TYPES else None)
        if target is None or not (isinstance(v, int) or (is_sym(v) and z3.is_bv(v))):
            r = I.P.resolve_fn(info.path)
            if r is not None:
                return I.call_fn(r[0], args, st, dict(r[1]))
            raise Unsupported("TryFrom for %s" % (dt or q))
        w = _interp.INT_TYPES[target]
        if target[0] == "i":
            raise Unsupported("TryFrom into a signed type")
        err = res_err(Adt("TryFromIntError", None, [()]))
        if isinstance(v, int):
            return res_ok(v) if 0 <= v < (1 << w) else err
        if v.size() <= w:
            return res_ok(z3.ZeroExt(w - v.size(), v) if v.size() < w else v)
        fits = z3.ULT(v, z3.BitVecVal(1 << w, v.size()))
        return Outcomes([(fits, res_ok(z3.Extract(w - 1, 0, v))), (z3.Not(fits), err)])

    @reg("mem::discriminant", "::discriminant", "discriminant")
    def mem_discriminant(I, st, args, info):
        v = deref_all(I, args[0], st)
        return Adt("Discriminant", None, [I.discriminant(v)])

    @reg("ToString::to_string")
    def to_string(I, st, args, info):
        v = deref_all(I, args[0], st)
        if _interp.short_type(info.path.qself or "").strip() == "char":
            return StringV([v])
        return fmt_display(I, v, st, info)

    @reg("Default::default")
    def default(I, st, args, info):
        r = I.P.resolve_fn(info.path)
        if r is not None:
            return I.call_fn(r[0], args, st, dict(r[1]))
        dt = _interp.short_type(info.dest_type() or info.path.qself or "")
        if dt.startswith("Vec<"):
            return VecV(())
        if dt == "String":
            return StringV(())
        if dt.startswith("Option<"):
            return OPT_NONE
        if dt.startswith("HashMap<"):
            return MapV(())
        if dt in ("bool",):
            return False
        if dt in _interp.INT_TYPES:
            return 0
        raise Unsupported("Default for " + dt)

    # ----------------------------------------------------------------- Option / Result
    def on_alts(v, f):
        """apply f to each alternative (non-union) and return Outcomes"""
        return Outcomes([(g, f(x)) for g, x in alts_of(v)])

    def unwrap_like(what):
        def h(I, st, args, info):
            def f(x):
                if x.variant in ("Some", "Ok"):
                    return x.fields[0]
                if x.variant == "None":
                    return Panic("called `Option::unwrap()` on a `None` value", what)
                return Panic("called `Result::unwrap()` on an `Err` value", what)
            return on_alts(args[0], f)
        h.__name__ = what
        return h
    R["Option::unwrap"] = unwrap_like("Option::unwrap")
    R["Result::unwrap"] = unwrap_like("Result::unwrap")
    R["Option::expect"] = unwrap_like("Option::expect")
    R["Result::expect"] = unwrap_like("Result::expect")

    @reg("Option::unwrap_or", "Result::unwrap_or")
    def unwrap_or(I, st, args, info):
        return umap(lambda x: x.fields[0] if x.variant in ("Some", "Ok") else args[1], args[0])

    @reg("Option::is_none")
    def is_none(I, st, args, info):
        return umap(lambda x: x.variant == "None", deref_all(I, args[0], st))

    @reg("Option::is_some")
    def is_some(I, st, args, info):
        return umap(lambda x: x.variant == "Some", deref_all(I, args[0], st))

    @reg("Result::is_err")
    def is_err(I, st, args, info):
        return umap(lambda x: x.variant == "Err", deref_all(I, args[0], st))

    @reg("Option::as_ref", "Option::as_deref", "Result::as_ref")
    def opt_as_ref(I, st, args, info):
        v = deref_all(I, args[0], st)
        return umap(lambda x: Adt(x.ty, x.variant, [ValRef(f) for f in x.fields]), v)

    def call_on_variant(I, st, v, variants, f, wrap, other):
        """for alternatives whose variant is in `variants` call f(payload) and wrap; else other(x)"""
        outs = []
        n0 = len(st.pc)
        for g, x in alts_of(v):
            if g is not True and not I.feasible(st.pc, g):
                continue
            st2 = st.fork(g)
            if x.variant in variants:
                for s3, r in I.call_value(f, [x.fields[0]], st2):
                    outs.append((s3, r if isinstance(r, Panic) else wrap(r)))
            else:
                outs.append((st2, other(x)))
        return outs

    @reg("Result::or_else")
    def or_else(I, st, args, info):
        return call_on_variant(I, st, args[0], ("Err",), args[1], lambda r: r, lambda x: x)

    @reg("Result::map_err")
    def map_err(I, st, args, info):
        return call_on_variant(I, st, args[0], ("Err",), args[1], res_err, lambda x: x)

    @reg("Result::map")
    def res_map(I, st, args, info):
        return call_on_variant(I, st, args[0], ("Ok",), args[1], res_ok, lambda x: x)

    @reg("Option::map")
    def opt_map(I, st, args, info):
        return call_on_variant(I, st, args[0], ("Some",), args[1], opt_some, lambda x: x)

    @reg("Option::and_then")
    def opt_and_then(I, st, args, info):
        return call_on_variant(I, st, args[0], ("Some",), args[1], lambda r: r, lambda x: x)

    @reg("Option::is_some_and")
    def is_some_and(I, st, args, info):
        return call_on_variant(I, st, args[0], ("Some",), args[1], lambda r: r, lambda x: False)

    @reg("Result::unwrap_or_else")
    def unwrap_or_else(I, st, args, info):
        return call_on_variant(I, st, args[0], ("Err",), args[1], lambda r: r, lambda x: x.fields[0])

    @reg("Option::unwrap_or_else")
    def opt_unwrap_or_else(I, st, args, info):
        outs = []
        for g, x in alts_of(args[0]):
            st2 = st.fork(g)
            if x.variant == "Some":
                outs.append((st2, x.fields[0]))
            else:
                outs.extend(I.call_value(args[1], [], st2))
        return outs

    @reg("core::bool::then", "bool::then", "<impl bool>::then")
    def bool_then(I, st, args, info):
        c = args[0]
        outs = []
        for g, b in ((c, True), (b_not(c), False)):
            g = b_simpl(g) if is_sym(g) else g
            if g is False or not I.feasible(st.pc, g):
                continue
            st2 = st.fork(g)
            if b:
                for s3, r in I.call_value(args[1], [], st2):
                    outs.append((s3, r if isinstance(r, Panic) else opt_some(r)))
            else:
                outs.append((st2, OPT_NONE))
        return outs

    @reg("Try::branch")
    def branch(I, st, args, info):
        def f(x):
            if x.variant in ("Ok", "Some"):
                return Adt("ControlFlow", "Continue", [x.fields[0]])
            if x.variant == "Err":
                return Adt("ControlFlow", "Break", [res_err(x.fields[0])])
            return Adt("ControlFlow", "Break", [OPT_NONE])
        return umap(f, args[0])

    @reg("FromResidual::from_residual")
    def from_residual(I, st, args, info):
        return args[0]

    # ----------------------------------------------------------------- comparison
    def is_path_cmp(info):
        q = _interp.short_type(info.path.qself or "").lstrip("&").strip()
        return q in ("Path", "PathBuf") or q.startswith("Path") and not q[4:5].isalnum()

    @reg("PartialEq::eq")
    def peq(I, st, args, info):
        if is_path_cmp(info):
            return path_eq(I, st, args[0], args[1])
        return struct_eq(I, args[0], args[1], st)

    @reg("PartialEq::ne")
    def pne(I, st, args, info):
        if is_path_cmp(info):
            return b_not(path_eq(I, st, args[0], args[1]))
        return b_not(struct_eq(I, args[0], args[1], st))

    # ----------------------------------------------------------------- std::path (unix): a path is its string; equality is component-wise
    @reg("Path::new", "PathBuf::as_path", "Path::as_os_str", "OsStr::new", "PathBuf::as_os_str")
    def path_new(I, st, args, info):
        v = deref_all(I, args[0], st)
        return string_as_str(v) if isinstance(v, StringV) else v

    @reg("Path::to_path_buf", "PathBuf::new", "Path::to_owned")
    def path_to_buf(I, st, args, info):
        if not args:
            return StringV(())
        return StringV(tuple(as_str_items(I, args[0], st)))

    @reg("Path::to_str", "Path::to_string_lossy", "Path::display")
    def path_to_str(I, st, args, info):
        v = deref_all(I, args[0], st)
        v = string_as_str(v) if isinstance(v, StringV) else v
        return opt_some(v) if info.path.last() == "to_str" else v

    @reg("PartialOrd::le")
    def ple(I, st, args, info):
        a, b = deref_all(I, args[0], st), deref_all(I, args[1], st)
        if isinstance(a, _interp.VariantOrCtor):
            a = Adt(a.enum, a.variant)
        if isinstance(b, _interp.VariantOrCtor):
            b = Adt(b.enum, b.variant)
        if isinstance(a, Adt) and isinstance(b, Adt):
            return I.P.variant_index(a.ty, a.variant) <= I.P.variant_index(b.ty, b.variant)
        raise Unsupported("PartialOrd::le on %r %r" % (a, b))

    @reg("max_level", "log::max_level", "::max_level")
    def max_level(I, st, args, info):
        return Adt("LevelFilter", "Off")

    @reg("__private_api::log", "__private_api::enabled")
    def log_noop(I, st, args, info):
        return ()

    # ----------------------------------------------------------------- strings
    @reg("String::new")
    def string_new(I, st, args, info):
        return StringV(())

    @reg("<impl str>::is_empty", "String::is_empty", "str::is_empty")
    def str_is_empty(I, st, args, info):
        v = deref_all(I, args[0], st)
        return umap(lambda x: len(as_str_items(I, x, st)) == 0, v)

    @reg("String::len", "<impl str>::len")
    def str_len(I, st, args, info):
        # only emptiness of a byte length is observable in the encoding: 0 iff no code point
        v = deref_all(I, args[0], st)

        def f(x):
            items = as_str_items(I, x, st)
            if len(items) == 0:
                return 0
            return byte_len_of(items)
        return umap(f, v)

    @reg("String::push_str")
    def push_str(I, st, args, info):
        r = args[0]
        cur = I.read_ref(r, st)
        addv = deref_all(I, args[1], st)
        if isinstance(addv, Union):
            # the appended text depends on the path condition (e.g. a slice at a symbolic boundary): one alternative per text
            alts = []
            for g_, a_ in addv.alts:
                its = tuple(as_str_items(I, a_, st))
                alts.append((g_, umap(lambda c, its=its: StringV(c.items + its), cur)))
            I.write_cell(r.key, r.path, merge_many(alts), st)
            return ()
        add = as_str_items(I, args[1], st)
        I.write_cell(r.key, r.path, umap(lambda c: StringV(c.items + tuple(add)), cur), st)
        return ()

    @reg("String::insert", "String::insert_str")
    def string_insert(I, st, args, info):
        """insert a char / &str at a byte offset; an offset that is no character boundary panics"""
        r = args[0]
        cur = I.read_ref(r, st)
        if not isinstance(cur, StringV):
            raise Unsupported("String::insert on %r" % (cur,))
        items = tuple(cur.items)
        add = (args[2],) if info.path.last() == "insert" else tuple(as_str_items(I, args[2], st))
        bounds, bad = char_boundaries(I, st, items, args[1])
        outs = []
        for g, k in bounds:
            s2 = st if g is True else st.fork(g)
            I.write_cell(r.key, r.path, StringV(items[:k] + add + items[k:]), s2)
            outs.append((s2, ()))
        if bad is not False and (bad is True or I.feasible(st.pc, bad)):
            outs.append((st.fork(bad) if bad is not True else st, Panic("assertion failed: self.is_char_boundary(idx)", "alloc::string::String::insert")))
        if len(outs) == 1 and outs[0][0] is st and outs[0][1] == ():
            return ()
        return outs

    @reg("String::push")
    def push_ch(I, st, args, info):
        r = args[0]
        cur = I.read_ref(r, st)
        I.write_cell(r.key, r.path, umap(lambda c: StringV(c.items + (args[1],)), cur), st)
        return ()

    @reg("<impl str>::chars")
    def chars(I, st, args, info):
        return IterV(as_str_items(I, args[0], st))

    @reg("<impl str>::escape_default", "<impl str>::escape_debug")
    def str_escape(I, st, args, info):
        """the escaped text itself (its Display / to_string / collect); exact on ASCII, opaque beyond for symbolic characters"""
        from .fmtmodel import escape_debug_char, AltSeq, expand_alts
        dbg = info.path.last() == "escape_debug"
        out = []
        for c in as_str_items(I, args[0], st):
            if isinstance(c, Seg):
                raise Unsupported("escape of formatted text")
            if isinstance(c, int):
                if dbg:
                    out.extend(escape_debug_char(c, 34) if c != 39 else [92, 39])
                elif c in (9, 10, 13):
                    out.extend([92, {9: 116, 10: 110, 13: 114}[c]])
                elif c in (34, 39, 92):
                    out.extend([92, c])
                elif 32 <= c <= 126:
                    out.append(c)
                else:
                    out.extend(ord(x) for x in "\\u{%x}" % c)
                continue
            quote3 = z3.Or(c == 34, c == 39, c == 92)
            plain = z3.And(z3.UGE(c, 32), z3.ULE(c, 126), z3.Not(quote3))
            other = z3.And(z3.Not(plain), z3.Not(quote3), c != 9, c != 10, c != 13)
            alts = [(quote3, [92, c]), (c == 9, [92, 116]), (c == 10, [92, 110]), (c == 13, [92, 114]), (plain, [c])]
            if dbg:
                # escape_debug keeps printable non-ASCII text: not modelled for symbolic characters
                alts.append((z3.And(other, z3.ULT(c, 128)), [92, 117, 123, Seg("lower_hex", c, (None, False, False)), 125]))
                alts.append((z3.UGE(c, 128), [Seg("dbgchar", c)]))
            else:
                alts.append((other, [92, 117, 123, Seg("lower_hex", c, (None, False, False)), 125]))
            out.append(AltSeq(alts))
        if any(isinstance(x, AltSeq) for x in out):
            alts = [(g, StringV(o)) for g, o in expand_alts(out) if I.feasible(st.pc, g)]
            return merge_many(alts)
        return StringV(out)

    @reg("String::truncate")
    def string_truncate(I, st, args, info):
        r = args[0]
        cur = I.read_ref(r, st)
        if isinstance(cur, Union):
            raise Unsupported("String::truncate on a union")
        items = tuple(cur.items)
        n = args[1]
        total = byte_len_of(items)
        if isinstance(n, int) and isinstance(total, int):
            if n >= total:
                return ()
        bounds, bad = char_boundaries(I, st, items, n)
        outs = []
        # new_len beyond the length: no effect
        beyond = False
        if not (isinstance(n, int) and isinstance(total, int)):
            tt = total.term() if isinstance(total, ByteLen) else z3.BitVecVal(total, 64)
            nn = n.term() if isinstance(n, ByteLen) else (z3.BitVecVal(n, 64) if isinstance(n, int) else n)
            beyond = z3.UGT(nn, tt)
        for g, k in bounds:
            s2 = st.fork(g) if g is not True else st.fork(True)
            I.write_cell(r.key, r.path, StringV(items[:k]), s2)
            outs.append((s2, ()))
        if beyond is not False and I.feasible(st.pc, beyond):
            outs.append((st.fork(beyond), ()))
            bad = b_and(bad, b_not(beyond))
        if bad is not False and I.feasible(st.pc, bad):
            outs.append((st.fork(bad), Panic("assertion failed: self.is_char_boundary(new_len)", "alloc::string::String::truncate")))
        return outs

    @reg("<impl str>::is_char_boundary")
    def str_is_char_boundary(I, st, args, info):
        items = tuple(as_str_items(I, args[0], st))
        bounds, bad = char_boundaries(I, st, items, args[1])
        return b_or(*[g for g, _ in bounds])

    @reg("<impl str>::bytes")
    def str_bytes(I, st, args, info):
        """UTF-8 bytes; a symbolic character that may be non-ASCII forks on its encoded width (1-4 bytes)"""
        paths = [(True, [])]
        for c in as_str_items(I, args[0], st):
            if isinstance(c, int):
                enc = list(chr(c).encode("utf-8"))
                paths = [(g, bs + enc) for g, bs in paths]
                continue
            if not is_sym(c):
                raise Unsupported("bytes of %r" % (c,))
            ex = lambda hi, lo, x=c: z3.Extract(7, 0, z3.LShR(x, lo)) if hi is None else (z3.Extract(7, 0, z3.LShR(x, lo)) & hi)
            cont = lambda lo, x=c: (z3.Extract(7, 0, z3.LShR(x, lo)) & 0x3F) | 0x80
            classes = [
                (z3.ULT(c, 0x80), [z3.Extract(7, 0, c)]),
                (z3.And(z3.UGE(c, 0x80), z3.ULT(c, 0x800)), [(z3.Extract(7, 0, z3.LShR(c, 6)) & 0x1F) | 0xC0, cont(0)]),
                (z3.And(z3.UGE(c, 0x800), z3.ULT(c, 0x10000)), [(z3.Extract(7, 0, z3.LShR(c, 12)) & 0x0F) | 0xE0, cont(6), cont(0)]),
                (z3.UGE(c, 0x10000), [(z3.Extract(7, 0, z3.LShR(c, 18)) & 0x07) | 0xF0, cont(12), cont(6), cont(0)]),
            ]
            nxt = []
            for g, bs in paths:
                for cg, enc in classes:
                    g2 = b_and(g, cg)
                    if g2 is not False and I.feasible(st.pc, g2):
                        nxt.append((g2, bs + enc))
            if len(nxt) > 1024:
                raise Unsupported("bytes of symbolic text: too many width combinations")
            paths = nxt
        if len(paths) == 1 and paths[0][0] is True:
            return IterV(paths[0][1])
        return [(st.fork(g) if g is not True else st, IterV(bs)) for g, bs in paths]

    @reg("<impl str>::contains")
    def str_contains(I, st, args, info):
        hay = as_str_items(I, args[0], st)
        pat = args[1]
        if isinstance(pat, (Closure, FnItem)):
            acc = False
            for c in hay:
                r = I.call1(pat, [c], st)
                if isinstance(r, Outcomes):
                    raise Unsupported("panic inside str::contains predicate")
                acc = b_or(acc, r)
            return acc
        pv = deref_all(I, pat, st)
        if is_scalar(pv):
            return b_or(*[chr_eq(c, pv) for c in hay])
        needle = as_str_items(I, pv, st)
        n, m = len(hay), len(needle)
        if m == 0:
            return True
        acc = False
        for i in range(0, n - m + 1):
            acc = b_or(acc, b_and(*[chr_eq(hay[i + j], needle[j]) for j in range(m)]))
        return acc

    @reg("<impl str>::find")
    def str_find(I, st, args, info):
        """byte offset of the first character in the pattern (char, [char; N], &[char] or predicate)"""
        hay = list(as_str_items(I, args[0], st))
        pat = args[1]
        pv = pat if isinstance(pat, (Closure, FnItem)) else deref_all(I, pat, st)

        def hit(c):
            if isinstance(pv, (Closure, FnItem)):
                r = I.call1(pv, [c], st)
                if isinstance(r, Outcomes):
                    raise Unsupported("panic inside str::find predicate")
                return r
            if is_scalar(pv):
                return chr_eq(c, pv)
            if isinstance(pv, SliceV):
                return b_or(*[chr_eq(c, x) for x in pv.elems()])
            raise Unsupported("str::find with a string pattern")
        alts = []
        none_before = True
        for k, c in enumerate(hay):
            h = hit(c)
            g = b_and(none_before, h)
            if g is not False:
                alts.append((g, Adt("Option", "Some", [byte_len_of(hay[:k])])))
            none_before = b_and(none_before, b_not(h))
            if none_before is False:
                break
        if none_before is not False:
            alts.append((none_before, Adt("Option", "None", [])))
        return merge_many(alts)

    @reg("<impl str>::rfind")
    def str_rfind(I, st, args, info):
        """byte offset of the last character in the pattern"""
        hay = list(as_str_items(I, args[0], st))
        pat = args[1]
        pv = pat if isinstance(pat, (Closure, FnItem)) else deref_all(I, pat, st)

        def hit(c):
            if isinstance(pv, (Closure, FnItem)):
                r = I.call1(pv, [c], st)
                if isinstance(r, Outcomes):
                    raise Unsupported("panic inside str::rfind predicate")
                return r
            if is_scalar(pv):
                return chr_eq(c, pv)
            if isinstance(pv, SliceV):
                return b_or(*[chr_eq(c, x) for x in pv.elems()])
            raise Unsupported("str::rfind with a string pattern")
        alts = []
        none_after = True
        for k in range(len(hay) - 1, -1, -1):
            h = hit(hay[k])
            g = b_and(none_after, h)
            if g is not False:
                alts.append((g, Adt("Option", "Some", [byte_len_of(hay[:k])])))
            none_after = b_and(none_after, b_not(h))
            if none_after is False:
                break
        if none_after is not False:
            alts.append((none_after, Adt("Option", "None", [])))
        return merge_many(alts)

    def char_boundaries(I, st, items, off):
        """byte offset -> [(guard, char index)] and the guard under which it is no char boundary / out of range"""
        if isinstance(off, Union):
            res, bad = [], False
            for g, o in off.alts:
                r2, b2 = char_boundaries(I, st, items, o)
                res += [(b_and(g, g2), k) for g2, k in r2]
                bad = b_or(bad, b_and(g, b2))
            return res, bad
        if isinstance(off, ByteLen) and off.items is not None and off.add == 0 and len(off.items) <= len(items) \
                and same_items(items[:len(off.items)], off.items):
            return [(True, len(off.items))], False
        if isinstance(off, int) and all(isinstance(c, int) for c in items):
            acc = 0
            for k in range(len(items) + 1):
                if acc == off:
                    return [(True, k)], False
                if k < len(items):
                    acc += len(chr(items[k]).encode("utf-8"))
            return [], True
        t = off.term() if isinstance(off, ByteLen) else (z3.BitVecVal(off, 64) if isinstance(off, int) else off)
        res, none = [], True
        acc = z3.BitVecVal(0, 64)
        for k in range(len(items) + 1):
            g = z3.simplify(acc == t)
            g = True if z3.is_true(g) else False if z3.is_false(g) else g
            if g is not False and (g is True or I.feasible(st.pc, g)):
                res.append((g, k))
                none = b_and(none, b_not(g))
            if k < len(items):
                acc = acc + utf8_width(items[k])
        if none is not False and none is not True and not I.feasible(st.pc, none):
            none = False
        return res, none

    @reg("<str as Index>::index", "<String as Index>::index", "<impl str>::get_unchecked")
    def str_index(I, st, args, info):
        v = deref_all(I, args[0], st)
        rng = deref_all(I, args[1], st)
        if isinstance(v, Union) or isinstance(rng, Union):
            raise Unsupported("str index on a union")
        if isinstance(v, StrSlice):
            buf, base, n = v.buf, v.start, len(v)
            items = tuple(v.chars())
        else:
            items = tuple(as_str_items(I, v, st))
            buf, base, n = SymBuf(items, name="owned"), 0, len(items)
        if "RangeFull" in (info.path.text or ""):
            return StrSlice(buf, base, base + n)
        if not isinstance(rng, Struct) or rng.ty not in ("RangeTo", "RangeFrom", "Range", "RangeFull"):
            raise Unsupported("str index with %r" % (rng,))
        if rng.ty == "RangeFull":
            return StrSlice(buf, base, base + n)
        lo = rng.fields[0] if rng.ty in ("RangeFrom", "Range") else 0
        hi = rng.fields[-1] if rng.ty in ("RangeTo", "Range") else None
        los, lbad = char_boundaries(I, st, items, lo)
        his, hbad = char_boundaries(I, st, items, hi) if hi is not None else ([(True, n)], False)
        alts, bad = [], b_or(lbad, hbad)
        for g1, a in los:
            for g2, b in his:
                g = b_and(g1, g2)
                if g is False:
                    continue
                if a > b:
                    bad = b_or(bad, g)
                else:
                    alts.append((g, StrSlice(buf, base + a, base + b)))
        outs = Outcomes([(g, x) for g, x in alts] + ([(bad, Panic("byte index is not a char boundary or is out of range", "core::str"))] if bad is not False else []))
        if len(outs.alts) == 1 and bad is False:
            return alts[0][1]
        return outs

    @reg("<Vec as Index>::index", "<[T] as Index>::index", "<impl [T]>::index")
    def seq_index(I, st, args, info):
        v = deref_all(I, args[0], st)
        rng = deref_all(I, args[1], st)
        if isinstance(v, Union):
            raise Unsupported("slice index on a union")
        base = v if isinstance(v, SliceV) else SliceV(tuple(seq_of(I, v, st)))
        n = len(base)

        def positions(x):
            """-> [(guard, int)] , out-of-range guard"""
            if isinstance(x, int):
                return ([(True, x)], False) if x <= n else ([], True)
            if isinstance(x, Union):
                res, bad = [], False
                for g, y in x.alts:
                    r2, b2 = positions(y)
                    res += [(b_and(g, g2), k) for g2, k in r2]
                    bad = b_or(bad, b_and(g, b2))
                return res, bad
            return [(x == z3.BitVecVal(k, x.size()), k) for k in range(n + 1)], z3.UGT(x, z3.BitVecVal(n, x.size()))
        if "RangeFull" in (info.path.text or "") or (isinstance(rng, (Adt, Struct)) and getattr(rng, "ty", "") == "RangeFull"):
            return base
        if not isinstance(rng, Struct):
            # a single element
            if isinstance(rng, int):
                if rng >= n:
                    raise PanicExc("index out of bounds")
                return ValRef(base.elems()[rng])
            raise Unsupported("symbolic element index through Index::index")
        if rng.ty == "RangeFull":
            return base
        lo = rng.fields[0] if rng.ty in ("RangeFrom", "Range") else 0
        hi = rng.fields[-1] if rng.ty in ("RangeTo", "Range") else n
        if rng.ty == "RangeInclusive" or rng.ty == "RangeToInclusive":
            raise Unsupported("inclusive range index")
        los, lbad = positions(lo)
        his, hbad = positions(hi)
        alts, bad = [], b_or(lbad, hbad)
        for g1, a in los:
            for g2, b in his:
                g = b_and(g1, g2)
                if g is False:
                    continue
                if a > b:
                    bad = b_or(bad, g)
                else:
                    alts.append((g, base.sub(a, b)))
        if bad is False and len(alts) == 1:
            return alts[0][1]
        return Outcomes(alts + ([(bad, Panic("range end index out of range for slice", "core::slice"))] if bad is not False else []))

    @reg("IndexMut::index_mut")
    def index_mut(I, st, args, info):
        r, i = args[0], deref_all(I, args[1], st)
        if not isinstance(r, Ref):
            raise Unsupported("index_mut through %r" % (r,))
        v = I.read_ref(r, st)
        if isinstance(v, (Union, MapV, StrSlice, StringV)) or isinstance(i, Struct):
            raise Unsupported("index_mut on %s / range" % type(v).__name__)
        if not isinstance(i, int):
            raise Unsupported("symbolic element index through IndexMut::index_mut")
        if i >= len(seq_of(I, v, st)):
            raise PanicExc("index out of bounds")
        return Ref(r.key, r.path + (("constindex", i, False),))

    @reg("Index::index")
    def any_index(I, st, args, info):
        v = deref_all(I, args[0], st)
        if isinstance(v, (StrSlice, StringV)):
            return str_index(I, st, args, info)
        if isinstance(v, MapV):
            raise Unsupported("HashMap index")
        return seq_index(I, st, args, info)

    @reg("<impl str>::replace")
    def str_replace(I, st, args, info):
        hay = list(as_str_items(I, args[0], st))
        pat = args[1]
        pv = deref_all(I, pat, st)
        needle = [pv] if is_scalar(pv) else list(as_str_items(I, pv, st))
        rep_ = list(as_str_items(I, args[2], st))
        m = len(needle)
        if m == 0:
            raise Unsupported("str::replace with an empty pattern")
        if any(isinstance(x, Seg) for x in needle):
            raise Unsupported("str::replace with a formatted pattern")

        def match_guard(i):
            if i + m > len(hay):
                return False
            g = True
            for j in range(m):
                h = hay[i + j]
                if isinstance(h, Seg):
                    return False      # a formatted number never contains the marker characters we can decide
                g = b_and(g, chr_eq(h, needle[j]))
                if g is False:
                    return False
            return g

        # leftmost, non-overlapping matches; alternatives fork only where a match is undecided
        alts = []

        def go(i, acc, guard):
            while i < len(hay):
                g = match_guard(i)
                if g is False:
                    acc = acc + [hay[i]]
                    i += 1
                    continue
                if g is True:
                    acc = acc + rep_
                    i += m
                    continue
                if I.feasible(st.pc, b_and(guard, g)):
                    go(i + m, acc + rep_, b_and(guard, g))
                guard = b_and(guard, b_not(g))
                if not I.feasible(st.pc, guard):
                    return
                acc = acc + [hay[i]]
                i += 1
            alts.append((guard, StringV(acc)))
        go(0, [], True)
        if len(alts) == 1:
            return alts[0][1]
        return Outcomes(alts)

    @reg("<impl str>::parse")
    def str_parse(I, st, args, info):
        gens = info.path.generics(-1)
        ty = _interp.short_type(gens[0]) if gens else None
        bits = _interp.INT_TYPES.get(ty)
        if bits is None:
            raise Unsupported("str::parse::<%s>" % ty)
        return Outcomes(parse_uint(I, as_str_items(I, args[0], st), bits, 10))

    @reg("core::num::from_str_radix", "num::from_str_radix", "<impl u16>::from_str_radix", "<impl u32>::from_str_radix",
         "<impl u64>::from_str_radix", "<impl u8>::from_str_radix")
    def from_str_radix(I, st, args, info):
        m = re.search(r"<impl (u\d+)>", info.path.text)
        ty = m.group(1) if m else None
        if ty is None:
            dt = _interp.short_type(info.dest_type() or "")
            m = re.match(r"Result<(u\d+),", dt)
            ty = m.group(1) if m else None
        if ty is None:
            raise Unsupported("from_str_radix type: " + info.path.text)
        radix = args[1]
        if not isinstance(radix, int):
            raise Unsupported("symbolic radix")
        return Outcomes(parse_uint(I, as_str_items(I, args[0], st), _interp.INT_TYPES[ty], radix))

    @reg("char::methods::from_u32", "methods::from_u32", "<impl char>::from_u32")
    def from_u32(I, st, args, info):
        v = args[0]
        if isinstance(v, int):
            ok = v < 0x110000 and not (0xD800 <= v <= 0xDFFF)
            return opt_some(v) if ok else OPT_NONE
        ok = z3.And(z3.ULT(v, 0x110000), z3.Not(z3.And(z3.UGE(v, 0xD800), z3.ULE(v, 0xDFFF))))
        return Outcomes([(ok, opt_some(v)), (z3.Not(ok), OPT_NONE)])

    # ----------------------------------------------------------------- char methods
    def rng(c, lo, hi):
        if isinstance(c, int):
            return lo <= c <= hi
        return z3.And(z3.UGE(c, lo), z3.ULE(c, hi))

    def char_pred(name, f_sym, f_conc=None):
        def h(I, st, args, info):
            c = deref_all(I, args[0], st)
            if isinstance(c, int) and f_conc is not None:
                return f_conc(chr(c))
            return f_sym(c)
        h.__name__ = "char_" + name
        for pre in ("<impl char>", "char", "methods"):
            R["%s::%s" % (pre, name)] = h
    char_pred("is_ascii_alphabetic", lambda c: b_or(rng(c, 65, 90), rng(c, 97, 122)))
    char_pred("is_ascii_digit", lambda c: rng(c, 48, 57))
    char_pred("is_ascii_alphanumeric", lambda c: b_or(rng(c, 65, 90), rng(c, 97, 122), rng(c, 48, 57)))
    char_pred("is_ascii_uppercase", lambda c: rng(c, 65, 90))
    char_pred("is_ascii_lowercase", lambda c: rng(c, 97, 122))
    char_pred("is_ascii_whitespace", lambda c: b_or(*[chr_eq(c, k) for k in (32, 9, 10, 12, 13)]))
    char_pred("is_ascii_punctuation", lambda c: b_or(rng(c, 33, 47), rng(c, 58, 64), rng(c, 91, 96), rng(c, 123, 126)))
    char_pred("is_ascii", lambda c: rng(c, 0, 127))
    char_pred("is_ascii_hexdigit", lambda c: b_or(rng(c, 48, 57), rng(c, 65, 70), rng(c, 97, 102)))
    char_pred("is_ascii_control", lambda c: b_or(rng(c, 0, 31), chr_eq(c, 127)))

    def unicode_pred(name, pyf):
        def sym(c):
            raise Unsupported("char::%s on a symbolic character" % name)
        char_pred(name, sym, pyf)
    unicode_pred("is_alphabetic", lambda ch: ch.isalpha())
    unicode_pred("is_numeric", lambda ch: ch.isnumeric())
    unicode_pred("is_alphanumeric", lambda ch: ch.isalnum())
    unicode_pred("is_whitespace", lambda ch: ch.isspace())
    unicode_pred("is_uppercase", lambda ch: ch.isupper())
    unicode_pred("is_lowercase", lambda ch: ch.islower())
    unicode_pred("is_control", lambda ch: ord(ch) < 32 or 127 <= ord(ch) < 160)

    def to_case(name, lo, hi, delta):
        def h(I, st, args, info):
            c = deref_all(I, args[0], st)
            if isinstance(c, int):
                return c + delta if lo <= c <= hi else c
            return z3.If(z3.And(z3.UGE(c, lo), z3.ULE(c, hi)), c + delta, c)
        for pre in ("<impl char>", "char", "methods"):
            R["%s::%s" % (pre, name)] = h
    to_case("to_ascii_lowercase", 65, 90, 32)
    to_case("to_ascii_uppercase", 97, 122, -32)

    # ----------------------------------------------------------------- Vec / slices / Box / Rc
    @reg("Vec::new")
    def vec_new(I, st, args, info):
        return VecV(())

    @reg("Vec::push")
    def vec_push(I, st, args, info):
        r = args[0]
        cur = I.read_ref(r, st)
        I.write_cell(r.key, r.path, umap(lambda c: VecV(c.items + (args[1],)), cur), st)
        return ()

    def seq_of(I, v, st):
        v = deref_all(I, v, st)
        if isinstance(v, VecV):
            return v.items
        if isinstance(v, SliceV):
            return v.elems()
        if isinstance(v, BoxV):
            return seq_of(I, v.v, st)
        raise Unsupported("not a sequence: %r" % (v,))

    @reg("Vec::len", "<impl [T]>::len")
    def vec_len(I, st, args, info):
        return umap(lambda x: len(seq_of(I, x, st)), deref_all(I, args[0], st))

    @reg("Vec::is_empty", "<impl [T]>::is_empty")
    def vec_is_empty(I, st, args, info):
        return umap(lambda x: len(seq_of(I, x, st)) == 0, deref_all(I, args[0], st))

    @reg("Vec::as_slice")
    def as_slice(I, st, args, info):
        return umap(lambda x: SliceV(seq_of(I, x, st)), deref_all(I, args[0], st))

    @reg("<impl [T]>::split", "<impl [T]>::split_inclusive")
    def slice_split(I, st, args, info):
        """sub-slices separated by the elements for which pred(&element) holds (concrete verdicts only)"""
        s = seq_of(I, deref_all(I, args[0], st), st)
        incl = info.path.last() == "split_inclusive"
        parts, cur = [], []
        for x in s:
            v = I.call1(args[1], [ValRef(x)], st)
            if not isinstance(v, bool):
                raise Unsupported("slice::split with a symbolic predicate verdict")
            if v:
                parts.append(cur + [x] if incl else cur)
                cur = []
            else:
                cur.append(x)
        if cur or not incl:
            parts.append(cur)
        return IterV([ValRef(SliceV(tuple(p_))) for p_ in parts])

    @reg("<impl [T]>::first")
    def first(I, st, args, info):
        def f(x):
            s = seq_of(I, x, st)
            return opt_some(ValRef(s[0])) if s else OPT_NONE
        return umap(f, deref_all(I, args[0], st))

    @reg("<impl [T]>::last")
    def last(I, st, args, info):
        def f(x):
            s = seq_of(I, x, st)
            return opt_some(ValRef(s[-1])) if s else OPT_NONE
        return umap(f, deref_all(I, args[0], st))

    @reg("<impl [T]>::reverse")
    def reverse(I, st, args, info):
        r = args[0]
        if not isinstance(r, Ref):
            raise Unsupported("reverse on non-&mut")
        cur = I.read_ref(r, st)

        def f(c):
            if isinstance(c, VecV):
                return VecV(tuple(reversed(c.items)))
            return SliceV(tuple(reversed(c.elems())))
        I.write_cell(r.key, r.path, umap(f, cur), st)
        return ()

    @reg("<impl [T]>::iter")
    def slice_iter(I, st, args, info):
        return umap(lambda x: IterV([ValRef(e) for e in seq_of(I, x, st)]), deref_all(I, args[0], st))

    @reg("IntoIterator::into_iter")
    def into_iter(I, st, args, info):
        v = args[0]
        if isinstance(v, IterV):
            return v
        vv = deref_all(I, v, st) if isinstance(v, (ValRef, Ref)) else v
        byref = isinstance(v, (ValRef, Ref))

        def f(x):
            if isinstance(x, IterV):
                return x
            if isinstance(x, SetV):
                return UnorderedIter([ValRef(k) if byref else k for k, w in ordered_entries(I, x)])
            if isinstance(x, MapV):
                return UnorderedIter([(ValRef(k), ValRef(w)) if byref else (k, w) for k, w in ordered_entries(I, x)])
            items = seq_of(I, x, st)
            return IterV([ValRef(e) for e in items] if byref else items)
        return umap(f, vv)

    @reg("Rc::new", "Arc::new")
    def rc_new(I, st, args, info):
        return BoxV(args[0], info.path.names()[-2])

    @reg("Box::new")
    def box_new(I, st, args, info):
        # a Box has identity: the compiler lowers `*b` to accesses through the raw pointer inside it
        from .fmtmodel import new_cell
        return HeapBox(new_cell(st, args[0]))

    @reg("Box::new_uninit")
    def box_new_uninit(I, st, args, info):
        from .fmtmodel import new_cell
        return HeapBox(new_cell(st, None))

    @reg("boxed::box_assume_init_into_vec_unsafe", "::box_assume_init_into_vec_unsafe")
    def box_into_vec(I, st, args, info):
        b = args[0]
        if isinstance(b, HeapBox):
            return VecV(seq_of(I, st.store[b.key], st))
        return VecV(seq_of(I, b.v, st))

    @reg("<impl [T]>::into_vec")
    def into_vec(I, st, args, info):
        return VecV(seq_of(I, args[0], st))

    @reg("<impl [T]>::join", "<impl [T]>::concat")
    def join(I, st, args, info):
        parts = seq_of(I, args[0], st)
        sep = as_str_items(I, args[1], st) if len(args) > 1 else ()
        # parts may be guarded unions of strings (text that was escaped depending on symbolic characters): cross product
        alts = [(True, [])]
        for i, p_ in enumerate(parts):
            pv = deref_all(I, p_, st)
            nxt = []
            for g, acc in alts:
                for g2, x in alts_of(pv):
                    gg = b_and(g, g2)
                    if gg is False:
                        continue
                    nxt.append((gg, acc + (list(sep) if i else []) + list(as_str_items(I, x, st))))
            alts = nxt
            if len(alts) > 4096:
                raise Unsupported("join of too many string alternatives")
        if len(alts) == 1:
            return StringV(alts[0][1])
        return merge_many([(g, StringV(o)) for g, o in alts])

    @reg("Extend::extend")
    def extend(I, st, args, info):
        r = args[0]
        cur = I.read_ref(r, st)
        add = args[1]
        items = drive(I, add, st) if isinstance(add, IterV) else seq_of(I, add, st)
        def ext(c):
            if isinstance(c, StringV):
                out = []
                for x in items:
                    if is_scalar(x):
                        out.append(x)
                    else:
                        out.extend(as_str_items(I, x, st))
                return StringV(c.items + tuple(out))
            return VecV(c.items + tuple(items))
        I.write_cell(r.key, r.path, umap(ext, cur), st)
        return ()

    # ----------------------------------------------------------------- iterators
    def drive_multi(I, it, st, unordered_ok=False):
        """evaluate an iterator with pending adaptors -> ([(st', items)...], [(st_p, Panic)...]).
        Closure calls are threaded through the state; forks inside a closure (several outcomes, conditional
        panics) split the evaluation into several paths."""
        if isinstance(it, GuardedIter):
            raise Unsupported("iterator with conditionally present items driven by a consumer other than count")
        if isinstance(it, UnorderedIter) and not unordered_ok and I.hash_order is None and len(it.items) > 1:
            raise Unsupported("result depends on HashMap iteration order (consumer is not order-insensitive)")
        paths = [(st, list(it.items))]
        panics = []
        for op in it.ops:
            kind = op[0]
            if kind in ("map", "filter_map", "flat_map"):
                nxt_paths = []
                for cur, items in paths:
                    partial = [(cur, [])]
                    for x in items:
                        step = []
                        for s0, out in partial:
                            outs = I.call_value(op[1], [x], s0)
                            for s1, r in outs:
                                if isinstance(r, Panic):
                                    panics.append((s1, r))
                                elif kind == "map":
                                    step.append((s1, out + [r]))
                                elif kind == "flat_map":
                                    # the closure's result is iterated: Ok(x) / Some(x) yield x, Err / None nothing, collections their items
                                    if isinstance(r, Union):
                                        for g_, a_ in r.alts:
                                            if not I.feasible(s1.pc, g_):
                                                continue
                                            step.append((s1.fork(g_), out + flat_items(I, a_, s1)))
                                    else:
                                        step.append((s1, out + flat_items(I, r, s1)))
                                else:
                                    if isinstance(r, Union):
                                        raise Unsupported("symbolic filter_map result")
                                    step.append((s1, out + [r.fields[0]] if r.variant == "Some" else out))
                        partial = step
                        if len(partial) > 6000:
                            raise Unsupported("too many paths inside an iterator adaptor")
                    nxt_paths.extend(partial)
                paths = nxt_paths
            elif kind == "enumerate":
                paths = [(s0, [(i, x) for i, x in enumerate(items)]) for s0, items in paths]
            elif kind in ("filter", "take_while", "skip_while"):
                # predicate over &item; a symbolic verdict forks the path
                nxt_paths = []
                for cur, items in paths:
                    partial = [(cur, [], True)]
                    for x in items:
                        step = []
                        for s0, out, active in partial:
                            if kind == "take_while" and not active:
                                step.append((s0, out, active))
                                continue
                            if kind == "skip_while" and not active:
                                step.append((s0, out + [x], active))
                                continue
                            for s1, r in I.call_value(op[1], [ValRef(x)], s0):
                                if isinstance(r, Panic):
                                    panics.append((s1, r))
                                    continue
                                if isinstance(r, (Union, Adt)):
                                    raise Unsupported("non-boolean predicate result in " + kind)
                                for val, g in ((True, r), (False, b_not(r))):
                                    g = b_simpl(g) if is_sym(g) else g
                                    if g is False or (g is not True and not I.feasible(s1.pc, g)):
                                        continue
                                    s2 = s1 if g is True else s1.fork(g)
                                    if kind == "filter":
                                        step.append((s2, out + [x] if val else out, True))
                                    elif kind == "take_while":
                                        step.append((s2, out + [x], True) if val else (s2, out, False))
                                    else:
                                        step.append((s2, out, True) if val else (s2, out + [x], False))
                        partial = step
                        if len(partial) > 6000:
                            raise Unsupported("too many paths inside an iterator adaptor")
                    nxt_paths.extend((s_, o_) for s_, o_, _ in partial)
                paths = nxt_paths
            else:
                raise Unsupported("iterator adaptor " + kind)
        return paths, panics

    def flat_items(I, r, st):
        r = deref_all(I, r, st)
        if isinstance(r, Adt) and r.ty in ("Result", "Option"):
            return [r.fields[0]] if r.variant in ("Ok", "Some") else []
        if isinstance(r, VecV):
            return list(r.items)
        if isinstance(r, IterV):
            return list(drive(I, r, st))
        raise Unsupported("flat_map over %r" % (r,))

    def drive_paths(I, it, st, unordered_ok=False):
        """single-path variant: (st', items, panics); st' is None when every path panicked"""
        paths, panics = drive_multi(I, it, st, unordered_ok)
        if not paths:
            return None, None, panics
        if len(paths) > 1:
            raise Unsupported("iterator adaptor closure forked where a single path is required")
        return paths[0][0], paths[0][1], panics

    def drive(I, it, st):
        """as drive_paths, for contexts that cannot continue after a conditional panic; the caller's
        state is updated in place"""
        cur, items, panics = drive_paths(I, it, st)
        if panics and cur is None:
            raise PanicExc(panics[0][1].msg, panics[0][1].site)
        if panics:
            raise Unsupported("conditional panic inside an iterator adaptor closure")
        st.store, st.pc = cur.store, cur.pc
        return items
    I.drive_iter = drive

    def consume(I, it, st, k, unordered_ok=False):
        """run consumer k(items, st') -> value | [(St, value)] on every path of the driven iterator, keeping panic paths"""
        paths, panics = drive_multi(I, it, st, unordered_ok)
        outs = list(panics)
        for cur, items in paths:
            r = k(items, cur)
            if isinstance(r, list):
                outs.extend(r)
            else:
                outs.extend(I.normalise(r, cur))
        return outs

    # further adaptors (evaluated eagerly where that is unobservable: no closure involved)
    @reg("Iterator::chain")
    def it_chain(I, st, args, info):
        a, b = args[0], args[1]
        if not isinstance(b, IterV):
            b = into_iter(I, st, [b], info)
        ia, ib = drive(I, a, st), drive(I, b, st)
        return IterV(tuple(ia) + tuple(ib))

    @reg("Iterator::rev")
    def it_rev(I, st, args, info):
        return IterV(tuple(reversed(drive(I, args[0], st))))

    @reg("Iterator::cloned", "Iterator::copied")
    def it_cloned(I, st, args, info):
        return IterV([deref(x) for x in drive(I, args[0], st)])

    @reg("Iterator::skip")
    def it_skip(I, st, args, info):
        items = drive(I, args[0], st)
        n = args[1]
        if isinstance(n, int):
            return IterV(items[n:])
        # a symbolic count: one path per feasible number of skipped elements
        outs = []
        cands = list(alts_of(n)) if isinstance(n, Union) else [(True, n)]
        for g0, nv in cands:
            if isinstance(nv, ByteLen):
                nv = nv.term() if nv.items is not None else nv.n
            for k in range(len(items) + 1):
                if isinstance(nv, int):
                    g = g0 if (nv == k or (k == len(items) and nv >= k)) else False
                else:
                    g = b_and(g0, (nv == k) if k < len(items) else z3.UGE(nv, k))
                if g is False or (g is not True and not I.feasible(st.pc, g)):
                    continue
                outs.append((st.fork(g) if g is not True else st, IterV(items[k:])))
        if len(outs) == 1:
            return outs[0][1] if outs[0][0] is st else outs
        return outs

    @reg("Iterator::by_ref")
    def it_by_ref(I, st, args, info):
        return args[0]

    @reg("Iterator::take")
    def it_take(I, st, args, info):
        """take(n); through `by_ref()` the taken elements are removed from the underlying iterator (done eagerly: the Take is
        assumed to be driven to its end, as `for`, `extend` and `collect` do); a symbolic count forks on the number taken"""
        src = args[0]
        ref = src if isinstance(src, Ref) else None
        it = I.read_ref(ref, st) if ref is not None else src
        items = drive(I, it, st)
        n = args[1]
        if isinstance(n, int):
            if ref is not None:
                I.write_cell(ref.key, ref.path, IterV(items[n:]), st)
            return IterV(items[:n])
        outs = []
        for g0, nv in (list(alts_of(n)) if isinstance(n, Union) else [(True, n)]):
            if isinstance(nv, ByteLen):
                nv = nv.term() if nv.items is not None else nv.n
            for k in range(len(items) + 1):
                if isinstance(nv, int):
                    g = g0 if (nv == k or (k == len(items) and nv >= k)) else False
                else:
                    g = b_and(g0, (nv == k) if k < len(items) else z3.UGE(nv, k))
                if g is False or (g is not True and not I.feasible(st.pc, g)):
                    continue
                s2 = st.fork(g) if g is not True else st
                if ref is not None:
                    I.write_cell(ref.key, ref.path, IterV(items[k:]), s2)
                outs.append((s2, IterV(items[:k])))
        if len(outs) == 1 and outs[0][0] is st:
            return outs[0][1]
        return outs

    @reg("Iterator::zip")
    def it_zip(I, st, args, info):
        b = args[1] if isinstance(args[1], IterV) else into_iter(I, st, [args[1]], info)
        return IterV(list(zip(drive(I, args[0], st), drive(I, b, st))))

    @reg("Iterator::count")
    def it_count(I, st, args, info):
        it0 = deref_all(I, args[0], st)
        if isinstance(it0, GuardedIter) and not it0.ops:
            # elements present under guards (str::matches, filter with a symbolic predicate): the count is a sum
            gs = [g for g, _ in it0.items]
            if all(g is True or g is False for g in gs):
                return sum(1 for g in gs if g is True)
            acc = z3.BitVecVal(0, 64)
            for g in gs:
                if g is False:
                    continue
                acc = acc + (z3.BitVecVal(1, 64) if g is True else z3.If(g, z3.BitVecVal(1, 64), z3.BitVecVal(0, 64)))
            return acc
        return consume(I, args[0], st, lambda items, s2: len(items))

    @reg("<impl str>::matches")
    def str_matches(I, st, args, info):
        v = deref_all(I, args[0], st)
        if not isinstance(v, StrSlice):
            items = tuple(as_str_items(I, v, st))
            v = StrSlice(SymBuf(items, name="owned"), 0, len(items))
        pv = deref_all(I, args[1], st)
        if not is_scalar(pv):
            raise Unsupported("str::matches with a non-character pattern")
        out = []
        for i, c in enumerate(v.chars()):
            if isinstance(c, Seg):
                continue            # a formatted number contains digits only: it cannot match a non-digit pattern
            g = chr_eq(c, pv) if isinstance(pv, int) else I.sym_eq(c, pv)
            out.append((g, StrSlice(v.buf, v.start + i, v.start + i + 1)))
        if isinstance(pv, int) and 48 <= pv <= 57 and any(isinstance(c, Seg) for c in v.chars()):
            raise Unsupported("str::matches for a digit in text with formatted numbers")
        return GuardedIter(out)

    @reg("Iterator::last")
    def it_last(I, st, args, info):
        return consume(I, args[0], st, lambda items, s2: opt_some(items[-1]) if items else OPT_NONE)

    @reg("Iterator::all")
    def it_all(I, st, args, info):
        it = deref_all(I, args[0], st)
        items = drive(I, it, st)
        acc = True
        for x in items:
            r = I.call1(args[1], [x], st)
            if isinstance(r, Outcomes):
                raise Unsupported("panic inside all()")
            acc = b_and(acc, r)
        return acc

    @reg("Iterator::filter")
    def it_filter(I, st, args, info):
        it = args[0]
        return type(it)(it.items, it.ops + (("filter", args[1]),))

    @reg("Iterator::take_while", "Iterator::skip_while")
    def it_take_while(I, st, args, info):
        it = args[0]
        if isinstance(it, (UnorderedIter, GuardedIter)):
            raise Unsupported(info.path.last() + " over an unordered / conditional iterator")
        return IterV(it.items, it.ops + ((info.path.last(), args[1]),))

    @reg("Iterator::find_map", "Iterator::find", "Iterator::position")
    def it_find(I, st, args, info):
        which = info.path.last()
        it = deref_all(I, args[0], st)
        unordered = isinstance(it, UnorderedIter)
        paths, panics = drive_multi(I, it, st, unordered_ok=True)
        results = [(s, p) for s, p in panics]

        def outcomes_of(x, idx, s0):
            """-> [(St, hit value | None | Panic)] for one element"""
            res = []
            arg = x if which in ("find_map", "position") else ValRef(x)
            for s2, r in I.call_value(args[1], [arg], s0):
                if isinstance(r, Panic):
                    res.append((s2, r))
                elif which == "find_map":
                    for g, o in alts_of(r):
                        if g is not True and not I.feasible(s2.pc, g):
                            continue
                        s3 = s2 if g is True else s2.fork(g)
                        res.append((s3, o if o.variant == "Some" else None))
                else:
                    hit = opt_some(x if which == "find" else idx)
                    if r is True:
                        res.append((s2, hit))
                    elif r is False:
                        res.append((s2, None))
                    else:
                        for g, o in ((r, hit), (b_not(r), None)):
                            g = b_simpl(g)
                            if g is False or not I.feasible(s2.pc, g):
                                continue
                            res.append((s2.fork(g), o))
            return res
        for cur, items in paths:
            live = [cur]
            if unordered:
                # HashMap iteration: the result must not depend on the order
                if len(paths) != 1:
                    raise Unsupported("forked adaptor over a HashMap iterator")
                hits = []
                for idx, x in enumerate(items):
                    o = outcomes_of(x, idx, live[0])
                    if len(o) != 1 or isinstance(o[0][1], Panic):
                        raise Unsupported("symbolic predicate over a HashMap iterator in " + which)
                    live = [o[0][0]]
                    if o[0][1] is not None:
                        hits.append(o[0][1])
                if len(hits) > 1 and not all(same(hits[0], h) for h in hits[1:]) and I.hash_order is None:
                    raise Unsupported("result depends on HashMap iteration order (%s with several matches)" % which)
                results.append((live[0], hits[0] if hits else OPT_NONE))
                continue
            for idx, x in enumerate(items):
                nxt = []
                for s0 in live:
                    for s2, o in outcomes_of(x, idx, s0):
                        if o is None:
                            nxt.append(s2)
                        else:
                            results.append((s2, o))
                live = nxt
                if len(live) + len(results) > 512:
                    raise Unsupported("too many paths in " + which)
                if not live:
                    break
            results.extend((s0, OPT_NONE) for s0 in live)
        if not results:
            raise Unsupported("%s: no feasible outcome" % which)
        return results

    @reg("Iterator::rposition")
    def it_rposition(I, st, args, info):
        """index (from the front) of the last element satisfying the predicate"""
        it = deref_all(I, args[0], st)
        paths, panics = drive_multi(I, it, st)
        results = [(s_, p_) for s_, p_ in panics]
        for cur, items in paths:
            live = [cur]
            for idx in range(len(items) - 1, -1, -1):
                nxt = []
                for s0 in live:
                    for s2, r in I.call_value(args[1], [items[idx]], s0):
                        if isinstance(r, Panic):
                            results.append((s2, r))
                        elif r is True:
                            results.append((s2, opt_some(idx)))
                        elif r is False:
                            nxt.append(s2)
                        else:
                            for g, hit in ((r, True), (b_not(r), False)):
                                g = b_simpl(g)
                                if g is False or not I.feasible(s2.pc, g):
                                    continue
                                if hit:
                                    results.append((s2.fork(g), opt_some(idx)))
                                else:
                                    nxt.append(s2.fork(g))
                live = nxt
                if not live:
                    break
            results.extend((s0, OPT_NONE) for s0 in live)
        return results

    @reg("str::from_utf8", "::from_utf8", "from_utf8", "converts::from_utf8")
    def str_from_utf8(I, st, args, info):
        bs = list(seq_of(I, args[0], st))
        if all(isinstance(b, int) for b in bs):
            try:
                txt = bytes(bs).decode("utf-8")
                return res_ok(StrSlice(SymBuf([ord(c) for c in txt], name="utf8"), 0, len(txt)))
            except UnicodeDecodeError:
                return res_err(Adt("Utf8Error", None, [()]))
        if len(bs) == 1:
            b = bs[0]
            ok_ = z3.ULT(b, z3.BitVecVal(0x80, b.size()))
            c = z3.ZeroExt(32 - b.size(), b) if b.size() < 32 else b
            return Outcomes([(ok_, res_ok(StrSlice(SymBuf([c], name="utf8"), 0, 1))), (z3.Not(ok_), res_err(Adt("Utf8Error", None, [()])))])
        raise Unsupported("from_utf8 of several symbolic bytes")

    @reg("fs::canonicalize", "::canonicalize", "canonicalize", "fs::metadata", "Path::exists", "fs::read_to_string", "fs::read_link")
    def fs_access(I, st, args, info):
        """the file system is outside the inputs of parse/compile: any answer is possible"""
        I.nondet_reads.append("file system (%s)" % info.path.last())
        k = len(I.nondet_reads)
        present = z3.Bool("fs_%d" % k)
        if info.path.last() == "exists":
            return present
        val = StringV([z3.BitVec("fs_%d_%d" % (k, i), 32) for i in range(3)])
        return Outcomes([(present, res_ok(val)), (z3.Not(present), res_err(Adt("IoError", None, [()])))])

    @reg("Cow::into_owned", "Cow::to_mut", "Cow::into_string")
    def cow_into_owned(I, st, args, info):
        v = deref_all(I, args[0], st)
        return umap(lambda x: StringV(tuple(as_str_items(I, x, st))) if isinstance(x, (StrSlice, StringV)) else x, v)

    @reg("Path::components")
    def path_components_(I, st, args, info):
        return Adt("Components", None, [StringV(tuple(as_str_items(I, args[0], st)))])

    @reg("Iterator::map")
    def it_map(I, st, args, info):
        it = args[0]
        return type(it)(it.items, it.ops + (("map", args[1]),))

    @reg("Iterator::flat_map")
    def it_flat_map(I, st, args, info):
        it = args[0]
        return IterV(it.items, it.ops + (("flat_map", args[1]),))

    @reg("Iterator::flatten")
    def it_flatten(I, st, args, info):
        out = []
        for x in drive(I, args[0], st):
            for g_, a_ in alts_of(x):
                if g_ is not True:
                    raise Unsupported("flatten of a symbolic element")
                out.extend(flat_items(I, a_, st))
        return IterV(out)

    # Peekable: the iterator itself (items are already evaluated once driven); peek does not consume
    @reg("ExactSizeIterator::len")
    def it_exact_len(I, st, args, info):
        return len(drive(I, deref_all(I, args[0], st), st))

    @reg("Iterator::peekable")
    def it_peekable(I, st, args, info):
        return IterV(drive(I, args[0], st))

    @reg("Peekable::peek", "Peekable::peek_mut")
    def peekable_peek(I, st, args, info):
        r = args[0]
        it = I.read_ref(r, st) if isinstance(r, Ref) else deref(r)
        items = drive(I, it, st)
        if isinstance(r, Ref):
            I.write_cell(r.key, r.path, IterV(items), st)
        return opt_some(ValRef(items[0])) if items else OPT_NONE

    @reg("Peekable::next_if")
    def peekable_next_if(I, st, args, info):
        r = args[0]
        it = I.read_ref(r, st)
        items = drive(I, it, st)
        if not items:
            return OPT_NONE
        outs = []
        for s1, v in I.call_value(args[1], [ValRef(items[0])], st):
            if isinstance(v, Panic):
                outs.append((s1, v))
                continue
            for val, g in ((True, v), (False, b_not(v))):
                if g is False or (g is not True and not I.feasible(s1.pc, g)):
                    continue
                s2 = s1 if g is True else s1.fork(g)
                I.write_cell(r.key, r.path, IterV(items[1:] if val else items), s2)
                outs.append((s2, opt_some(items[0]) if val else OPT_NONE))
        return outs

    @reg("Vec::dedup_by", "Vec::dedup", "Vec::dedup_by_key")
    def vec_dedup_by(I, st, args, info):
        """removes an element when same_bucket(&mut element, &mut last kept) holds; a symbolic verdict forks"""
        r = args[0]
        cur = I.read_ref(r, st)
        if isinstance(cur, Union):
            outs = []
            for g_, a_ in cur.alts:
                if not I.feasible(st.pc, g_):
                    continue
                s_ = st.fork(g_)
                I.write_cell(r.key, r.path, a_, s_)
                res_ = vec_dedup_by(I, s_, args, info)
                outs.extend(res_ if isinstance(res_, list) else [(s_, ())])
            return outs
        if not isinstance(cur, VecV):
            raise Unsupported("dedup on %r" % (cur,))
        which = info.path.last()
        items = list(cur.items)
        if not items:
            return ()
        paths = [(st, [items[0]])]
        for x in items[1:]:
            nxt = []
            for s0, kept in paths:
                if which == "dedup":
                    verdicts = [(s0, I.values_equal(x, kept[-1], s0) if hasattr(I, "values_equal") else None)]
                    if verdicts[0][1] is None:
                        raise Unsupported("Vec::dedup (PartialEq of elements)")
                elif which == "dedup_by_key":
                    raise Unsupported("Vec::dedup_by_key")
                else:
                    verdicts = I.call_value(args[1], [ValRef(x), ValRef(kept[-1])], s0)
                for s1, v in verdicts:
                    if isinstance(v, Panic):
                        nxt.append((s1, v))
                        continue
                    if isinstance(v, (Union, Adt)):
                        raise Unsupported("non-boolean verdict in dedup_by")
                    for val, g in ((True, v), (False, b_not(v))):
                        g = b_simpl(g) if is_sym(g) else g
                        if g is False or (g is not True and not I.feasible(s1.pc, g)):
                            continue
                        s2 = s1 if g is True else s1.fork(g)
                        nxt.append((s2, kept if val else kept + [x]))
            done = [(s_, k_) for s_, k_ in nxt if isinstance(k_, Panic)]
            paths = [(s_, k_) for s_, k_ in nxt if not isinstance(k_, Panic)]
            if done:
                raise Unsupported("panic inside dedup_by closure")
            if len(paths) > 6000:
                raise Unsupported("too many paths inside an iterator adaptor")
        outs = []
        for s_, kept in paths:
            I.write_cell(r.key, r.path, VecV(kept), s_)
            outs.append((s_, ()))
        return outs

    @reg("Iterator::enumerate")
    def it_enum(I, st, args, info):
        it = args[0]
        return IterV(it.items, it.ops + (("enumerate",),))

    @reg("Iterator::filter_map")
    def it_filter_map(I, st, args, info):
        it = args[0]
        return IterV(it.items, it.ops + (("filter_map", args[1]),))

    def seq_calls(I, f, items, st, acc0, step):
        """thread a fold through possibly forking closure calls. step(acc, x) -> args list
        returns [(St, acc | Panic)]  (panicking paths stop there)"""
        paths = [(st, acc0)]
        done = []
        for x in items:
            nxt = []
            for s, acc in paths:
                outs = I.call_value(f, step(acc, x), s)
                nxt.extend(outs)
            done.extend((s, v) for s, v in nxt if isinstance(v, Panic))
            paths = [(s, v) for s, v in nxt if not isinstance(v, Panic)]
        return paths + done

    @reg("Iterator::fold")
    def it_fold(I, st, args, info):
        return consume(I, args[0], st, lambda items, s2: seq_calls(I, args[2], items, s2, args[1], lambda acc, x: [acc, x]))

    @reg("Iterator::for_each")
    def it_for_each(I, st, args, info):
        def k(items, s2):
            outs = seq_calls(I, args[1], items, s2, (), lambda acc, x: [x])
            return [(s, v if isinstance(v, Panic) else ()) for s, v in outs]
        return consume(I, args[0], st, k)

    @reg("Iterator::reduce")
    def it_reduce(I, st, args, info):
        def k(items, s2):
            if not items:
                return OPT_NONE
            outs = seq_calls(I, args[1], items[1:], s2, items[0], lambda acc, x: [acc, x])
            return [(s, v if isinstance(v, Panic) else opt_some(v)) for s, v in outs]
        return consume(I, args[0], st, k)

    @reg("Iterator::any")
    def it_any(I, st, args, info):
        it = deref_all(I, args[0], st)
        items = drive(I, it, st)
        acc = False
        for x in items:
            r = I.call1(args[1], [x], st)
            if isinstance(r, Outcomes):
                raise Unsupported("panic inside any()")
            acc = b_or(acc, r)
        return acc

    @reg("Iterator::next")
    def it_next(I, st, args, info):
        r = args[0]
        it = I.read_ref(r, st) if isinstance(r, Ref) else deref(r)
        items = drive(I, it, st)
        if not items:
            return OPT_NONE
        if isinstance(r, Ref):
            I.write_cell(r.key, r.path, IterV(items[1:]), st)
        return opt_some(items[0])

    @reg("Iterator::collect", "FromIterator::from_iter")
    def it_collect(I, st, args, info):
        gens = info.path.generics(-1)
        target = _interp.short_type(gens[0]) if gens else _interp.short_type(info.dest_type() or "")
        a0 = deref_all(I, args[0], st)
        if isinstance(a0, Adt) and a0.ty == "Components":
            if target not in ("PathBuf", "Vec<Component>") and "PathBuf" not in target:
                raise Unsupported("collect of path components into " + target)
            alts = []
            for g, comps in path_components(tuple(a0.fields[0].items)):
                if g is False or (g is not True and not I.feasible(st.pc, g)):
                    continue
                out = []
                for i, c in enumerate(comps):
                    if c == "root":
                        out.append(47)
                        continue
                    if out and out[-1] != 47:
                        out.append(47)
                    if c == "cur":
                        out.append(46)
                    elif c == "parent":
                        out.extend([46, 46])
                    else:
                        out.extend(c[1])
                alts.append((g, StringV(out)))
            return merge_many(alts)
        return consume(I, args[0], st, lambda items, s2: collect_items(I, items, s2, info), unordered_ok=target.startswith(("HashMap<", "HashSet<")))

    def collect_items(I, items, st, info):
        gens = info.path.generics(-1)
        target = _interp.short_type(gens[0]) if gens else _interp.short_type(info.dest_type() or "")
        if target.startswith("Vec<"):
            return VecV(items)
        if target == "String":
            out = []
            for x in items:
                if is_scalar(x):
                    out.append(x)
                else:
                    out.extend(as_str_items(I, x, st))
            return StringV(out)
        if target.startswith("Result<Vec<"):
            # stops at the first Err
            def go(i, acc):
                if i == len(items):
                    return res_ok(VecV(acc))
                x = items[i]
                alts = []
                for g, a in alts_of(x):
                    if a.variant == "Ok":
                        alts.append((g, go(i + 1, acc + [a.fields[0]])))
                    else:
                        alts.append((g, res_err(a.fields[0])))
                return merge_many(alts)
            return go(0, [])
        if target.startswith("HashMap<"):
            m = MapV(())
            for k, v in items:
                m = m.insert(I, k, v, st)[0]
            return m
        if target.startswith("HashSet<"):
            m = SetV(())
            for k in items:
                m = m.insert(I, deref(k), (), st)[0]
            return m
        raise Unsupported("collect into " + target)

    # ----------------------------------------------------------------- HashMap (association list; see MapV)
    @reg("HashMap::new")
    def map_new(I, st, args, info):
        return MapV(())

    @reg("HashMap::get")
    def map_get(I, st, args, info):
        m = deref_all(I, args[0], st)
        key = deref_all(I, args[1], st)
        look = m.lookup(I, key, st)
        return Outcomes([(g, OPT_NONE if v is None else opt_some(ValRef(v))) for g, v in look])

    @reg("HashMap::contains_key")
    def map_contains(I, st, args, info):
        m = deref_all(I, args[0], st)
        key = deref_all(I, args[1], st)
        look = m.lookup(I, key, st)
        return b_or(*[g for g, v in look if v is not None])

    @reg("HashMap::insert")
    def map_insert(I, st, args, info):
        r = args[0]
        m = I.read_ref(r, st)
        if isinstance(m, Union):
            raise Unsupported("insert into a union of maps")
        look = m.lookup(I, args[1], st)
        outs = []
        for g, old in look:
            if g is False or not I.feasible(st.pc, g):
                continue
            st2 = st.fork(b_simpl(g) if is_sym(g) else g)
            if old is None:
                m2 = MapV(m.entries + ((args[1], args[2]),))
                ret = OPT_NONE
            else:
                ents = []
                hit = False
                for k, v in m.entries:
                    if not hit and v is old:
                        ents.append((k, args[2]))
                        hit = True
                    else:
                        ents.append((k, v))
                m2 = MapV(ents)
                ret = opt_some(old)
            I.write_cell(r.key, r.path, m2, st2)
            outs.append((st2, ret))
        return outs

    @reg("HashMap::iter")
    def map_iter(I, st, args, info):
        m = deref_all(I, args[0], st)
        ents = list(m.entries)
        if I.hash_order == "rev":
            ents.reverse()
        elif I.hash_order == "rot" and len(ents) > 1:
            ents = ents[1:] + ents[:1]
        it = IterV([(ValRef(k), ValRef(v)) for k, v in ents])
        return UnorderedIter(it.items)

    def ordered_entries(I, m):
        ents = list(m.entries)
        if I.hash_order == "rev":
            ents.reverse()
        elif I.hash_order == "rot" and len(ents) > 1:
            ents = ents[1:] + ents[:1]
        return ents

    @reg("HashMap::values", "HashMap::keys", "HashMap::into_values", "HashMap::into_keys")
    def map_values(I, st, args, info):
        m = deref_all(I, args[0], st)
        which = info.path.last()
        idx = 1 if "values" in which else 0
        owned = which.startswith("into_")
        return UnorderedIter([(e[idx] if owned else ValRef(e[idx])) for e in ordered_entries(I, m)])

    @reg("HashSet::new", "HashSet::with_capacity")
    def set_new(I, st, args, info):
        return SetV(())

    @reg("HashSet::insert")
    def set_insert(I, st, args, info):
        r = args[0]
        m = I.read_ref(r, st)
        if isinstance(m, Union):
            raise Unsupported("insert into a union of sets")
        m2, look = m.insert(I, args[1], (), st)
        I.write_cell(r.key, r.path, m2, st)
        return b_or(*[g for g, old in look if old is None])

    @reg("HashSet::contains")
    def set_contains(I, st, args, info):
        m = deref_all(I, args[0], st)
        look = m.lookup(I, deref_all(I, args[1], st), st)
        return b_or(*[g for g, v in look if v is not None])

    @reg("HashSet::iter", "HashSet::into_iter", "HashSet::drain")
    def set_iter(I, st, args, info):
        m = deref_all(I, args[0], st)
        owned = info.path.last() != "iter"
        return UnorderedIter([(k if owned else ValRef(k)) for k, w in ordered_entries(I, m)])

    @reg("HashSet::len")
    def set_len(I, st, args, info):
        return len(deref_all(I, args[0], st).entries)

    @reg("HashSet::is_empty")
    def set_is_empty(I, st, args, info):
        return len(deref_all(I, args[0], st).entries) == 0

    @reg("HashMap::is_empty")
    def map_is_empty(I, st, args, info):
        return len(deref_all(I, args[0], st).entries) == 0

    @reg("HashMap::len")
    def map_len(I, st, args, info):
        return len(deref_all(I, args[0], st).entries)

    # ----------------------------------------------------------------- process-global state (only C15 cares)
    ATOMIC_TYPES = ("AtomicU32", "AtomicU64", "AtomicUsize", "AtomicBool", "AtomicI32", "AtomicI64", "Atomic")

    def atomic(name, f):
        def h(I, st, args, info):
            r = args[0]
            if isinstance(r, ValRef):
                raise Unsupported("atomic behind a snapshot reference")
            cur = I.read_ref(r, st)
            val = cur.fields[0] if isinstance(cur, Adt) else cur
            new, ret = f(val, args)
            I.write_cell(r.key, r.path, Adt("Atomic", None, [new]), st)
            return ret
        h.__name__ = "atomic_" + name
        for ty in ATOMIC_TYPES:
            R["%s::%s" % (ty, name)] = h
    atomic("fetch_add", lambda v, a: ((v + a[1]) if not is_sym(v) else v + a[1], v))
    atomic("fetch_sub", lambda v, a: (v - a[1], v))
    atomic("load", lambda v, a: (v, v))
    atomic("store", lambda v, a: (a[1], ()))
    atomic("swap", lambda v, a: (a[1], v))

    def _bool_op(op):
        def f(v, a):
            x, y = v, a[1]
            if isinstance(x, bool) and isinstance(y, bool):
                return ((x or y) if op == "or" else (x and y) if op == "and" else (x != y)), v
            if isinstance(x, int) and isinstance(y, int):
                return ((x | y) if op == "or" else (x & y) if op == "and" else (x ^ y)), v
            return (b_or(x, y) if op == "or" else b_and(x, y) if op == "and" else z3.Xor(x, y)), v
        return f
    atomic("fetch_or", _bool_op("or"))
    atomic("fetch_and", _bool_op("and"))
    atomic("fetch_xor", _bool_op("xor"))

    def _cmpxchg(v, a):
        # compare_exchange(current, new, ..): Ok(previous) and stored when equal, Err(previous) otherwise (concrete values only)
        if is_sym(v) or is_sym(a[1]):
            raise Unsupported("compare_exchange on a symbolic atomic")
        return (a[2], res_ok(v)) if v == a[1] else (v, res_err(v))
    atomic("compare_exchange", _cmpxchg)
    atomic("compare_exchange_weak", _cmpxchg)
    for ty in ATOMIC_TYPES:
        R["%s::new" % ty] = (lambda I, st, args, info: Adt("Atomic", None, [args[0]]))

    # thread_local!: one cell per key and (single) thread, lazily initialised by the key's init function
    @reg("LocalKey::new")
    def localkey_new(I, st, args, info):
        a = args[0]
        return Adt("LocalKey", None, [a.data if isinstance(a, Opaque) else repr(a)])

    @reg("LocalKey::with", "LocalKey::try_with", "LocalKey::set", "LocalKey::get", "LocalKey::replace", "LocalKey::take")
    def localkey_with(I, st, args, info):
        key = deref_all(I, args[0], st)
        name = key.fields[0]
        ck = ("static", "tls:" + str(name))
        if ck not in I.global_cells:
            cands = [f for n, f in I.P.funcs.items() if n.endswith("__rust_std_internal_init_fn")]
            if len(cands) != 1:
                raise Unsupported("thread_local initialiser not identified (%d candidates)" % len(cands))
            outs = I.call_fn(cands[0], [], st, {})
            if len(outs) != 1 or isinstance(outs[0][1], Panic):
                raise Unsupported("thread_local initialiser did not evaluate")
            I.global_cells[ck] = outs[0][1]
        if ck not in st.store:
            st.store[ck] = I.global_cells[ck]
        which = info.path.last()
        if which in ("with", "try_with"):
            outs = I.call_value(args[1], [Ref(ck, ())], st)
            if which == "try_with":
                outs = [(s, v if isinstance(v, Panic) else res_ok(v)) for s, v in outs]
            for s, _ in outs:
                I.global_cells[ck] = s.store.get(ck, I.global_cells[ck])
            return outs
        raise Unsupported("LocalKey::" + which)

    @reg("Cell::new", "RefCell::new")
    def cell_new(I, st, args, info):
        return Adt("Cell", None, [args[0]])

    @reg("Cell::get", "Cell::take", "Cell::replace", "Cell::set", "Cell::into_inner")
    def cell_ops(I, st, args, info):
        which = info.path.last()
        r = args[0]
        cur = I.read_ref(r, st) if isinstance(r, Ref) else deref_all(I, r, st)
        val = cur.fields[0]
        if which in ("get", "into_inner"):
            return val
        if not isinstance(r, Ref):
            raise Unsupported("Cell::%s through a snapshot reference" % which)
        new = args[1] if which in ("set", "replace") else Adt("Option", "None")
        I.write_cell(r.key, r.path, Adt("Cell", None, [new]), st)
        return () if which == "set" else val

    @reg("RefCell::borrow", "RefCell::borrow_mut", "RefCell::try_borrow", "RefCell::try_borrow_mut", "RefCell::get_mut")
    def refcell_borrow(I, st, args, info):
        """borrow guards are transparent pointers to the content; the borrow flag (already-borrowed panics) is not modelled"""
        which = info.path.last()
        r = args[0]
        if isinstance(r, Ref):
            inner = Ref(r.key, tuple(r.path) + (("field", 0, None),))
        else:
            if "mut" in which:
                raise Unsupported("RefCell::%s through a snapshot reference" % which)
            inner = ValRef(deref_all(I, r, st).fields[0])
        if which == "get_mut":
            return inner
        g = Adt("RefGuard", None, [inner])
        return res_ok(g) if which.startswith("try_") else g

    @reg("RefCell::replace", "RefCell::take", "RefCell::into_inner")
    def refcell_ops(I, st, args, info):
        return cell_ops(I, st, args, info)

    @reg("process::id", "::id")
    def process_id(I, st, args, info):
        I.nondet_reads.append("process id")
        return z3.BitVec("pid_%d" % len(I.nondet_reads), 32)

    # ----------------------------------------------------------------- clock
    @reg("SystemTime::now")
    def now(I, st, args, info):
        k = len(I.clock_reads)
        t = z3.BitVec("now_%d" % k, 64)
        I.clock_reads.append(t)
        return Adt("SystemTime", None, [t])

    @reg("SystemTime::duration_since")
    def duration_since(I, st, args, info):
        a, b = deref_all(I, args[0], st), deref_all(I, args[1], st)
        ta, tb = a.fields[0], b.fields[0]
        if isinstance(tb, int) and tb == 0:
            return res_ok(Adt("Duration", None, [ta]))     # assumption: the clock is not before the UNIX epoch
        raise Unsupported("duration_since a non-epoch instant")

    @reg("Duration::as_secs")
    def as_secs(I, st, args, info):
        return deref_all(I, args[0], st).fields[0]

    # ----------------------------------------------------------------- arithmetic operator traits on primitives
    # (core's impls carry #[rustc_inherit_overflow_checks]: they panic on overflow iff the calling
    #  crate is built with overflow checks, i.e. in the DEV profile)
    def arith(opname, msg):
        def h(I, st, args, info):
            ty = _interp.short_type(info.path.qself or "").lstrip("&").strip()
            if ty not in _interp.INT_TYPES:
                raise Unsupported("operator trait %s on %s" % (opname, ty))
            a, b = deref_all(I, args[0], st), deref_all(I, args[1], st)
            r, ov = I.binop(opname + "WithOverflow", a, b, ty)
            if I.profile == "dev":
                if ov is True:
                    raise PanicExc(msg)
                if ov is not False:
                    return Outcomes([(b_not(ov), r), (ov, Panic(msg, "core::ops::%s" % opname))])
            return r
        h.__name__ = "prim_" + opname
        return h
    def checked(opname):
        def h(I, st, args, info):
            m = re.search(r"<impl ([ui]\d+|usize|isize)>", info.path.text)
            ty = m.group(1) if m else None
            if ty is None:
                raise Unsupported("checked arithmetic type: " + info.path.text)
            a, b = deref_all(I, args[0], st), deref_all(I, args[1], st)
            r, ov = I.binop(opname + "WithOverflow", a, b, ty)
            if ov is True:
                return OPT_NONE
            if ov is False:
                return opt_some(r)
            return Outcomes([(b_not(ov), opt_some(r)), (ov, OPT_NONE)])
        h.__name__ = "checked_" + opname
        return h
    for ty_ in ("u8", "u16", "u32", "u64", "usize", "i32", "i64"):
        R["<impl %s>::checked_mul" % ty_] = checked("Mul")
        R["<impl %s>::checked_add" % ty_] = checked("Add")
        R["<impl %s>::checked_sub" % ty_] = checked("Sub")

    @reg("RangeInclusive::new")
    def range_incl_new(I, st, args, info):
        return Struct("RangeInclusive", ("start", "end"), (args[0], args[1]))

    def shift(opname, msg):
        def h(I, st, args, info):
            ty = _interp.short_type(info.path.qself or "").lstrip("&").strip()
            if ty not in _interp.INT_TYPES:
                raise Unsupported("operator trait %s on %s" % (opname, ty))
            w = _interp.INT_TYPES[ty]
            a, b = deref_all(I, args[0], st), deref_all(I, args[1], st)
            r = I.binop(opname, a, b, ty)
            if I.profile == "dev":
                # core's impls inherit the caller's overflow checks: a shift amount >= the width panics
                if isinstance(b, int):
                    if b >= w:
                        raise PanicExc(msg)
                else:
                    ov = z3.UGE(b, z3.BitVecVal(w, b.size()))
                    return Outcomes([(b_not(ov), r), (ov, Panic(msg, "core::ops::%s" % opname))])
            return r
        h.__name__ = "prim_" + opname
        return h
    R["Shl::shl"] = shift("Shl", "attempt to shift left with overflow")
    R["Shr::shr"] = shift("Shr", "attempt to shift right with overflow")

    def bitop(opname):
        def h(I, st, args, info):
            ty = _interp.short_type(info.path.qself or "").lstrip("&").strip()
            if ty not in _interp.INT_TYPES and ty != "bool":
                raise Unsupported("operator trait %s on %s" % (opname, ty))
            return I.binop(opname, deref_all(I, args[0], st), deref_all(I, args[1], st), ty)
        return h
    for nm_, op_ in (("BitAnd::bitand", "BitAnd"), ("BitOr::bitor", "BitOr"), ("BitXor::bitxor", "BitXor")):
        if nm_ not in R:
            R[nm_] = bitop(op_)

    R["Mul::mul"] = arith("Mul", "attempt to multiply with overflow")
    R["Add::add"] = arith("Add", "attempt to add with overflow")
    R["Sub::sub"] = arith("Sub", "attempt to subtract with overflow")

    # ----------------------------------------------------------------- misc
    @reg("Fn::call", "FnMut::call_mut", "FnOnce::call_once")
    def fn_call(I, st, args, info):
        f, tup = args
        return I.call_value(f, list(tup), st)

    @reg("::panic", "panicking::panic", "panic")
    def panic(I, st, args, info):
        msg = deref_all(I, args[0], st)
        raise PanicExc("".join(map(chr, msg.chars())) if isinstance(msg, StrSlice) else "panic")

    @reg("panicking::panic_fmt", "::panic_fmt", "panic_fmt", "panicking::unreachable_display", "unreachable_display",
         "panicking::panic_display", "panic_display", "panicking::panic_explicit", "panic_explicit", "panic_nounwind",
         "panicking::assert_failed", "assert_failed", "unwrap_failed", "expect_failed", "panic_str", "begin_panic")
    def panic_fmt(I, st, args, info):
        msg = info.path.last()
        try:
            from .fmtmodel import ArgsV
            if args and isinstance(args[0], ArgsV):
                r = I.render_args(I, args[0], st)
                if isinstance(r, StringV):
                    msg = "".join(chr(c) if isinstance(c, int) else "?" for c in r.items)
        except Unsupported:
            pass
        raise PanicExc(msg)

    @reg("::must_use", "hint::must_use", "must_use")
    def must_use(I, st, args, info):
        return args[0]

    @reg("mem::drop", "::drop")
    def drop(I, st, args, info):
        return ()


    # ----------------------------------------------------------------- batch 2: further std surface met in seeded changes
    @reg("<impl [T]>::contains", "Vec::contains")
    def slice_contains(I, st, args, info):
        def f(x):
            return b_or(*[struct_eq(I, e, args[1], st) for e in seq_of(I, x, st)])
        return umap(f, deref_all(I, args[0], st))

    @reg("<impl [T]>::get")
    def slice_get(I, st, args, info):
        def f(x):
            s_ = seq_of(I, x, st)
            i = args[1]
            if isinstance(i, int):
                return opt_some(ValRef(s_[i])) if i < len(s_) else OPT_NONE
            alts = [(i == z3.BitVecVal(k, i.size()), opt_some(ValRef(e))) for k, e in enumerate(s_)]
            alts.append((z3.UGE(i, z3.BitVecVal(len(s_), i.size())), OPT_NONE))
            return merge_many(alts)
        return umap(f, deref_all(I, args[0], st))

    @reg("<impl [T]>::to_vec")
    def slice_to_vec(I, st, args, info):
        return umap(lambda x: VecV(tuple(seq_of(I, x, st))), deref_all(I, args[0], st))

    def int_ty(info):
        m = re.search(r"<impl ([ui]\d+|usize|isize)>", info.path.text)
        if not m:
            raise Unsupported("integer method on unknown type: " + info.path.text[:80])
        return m.group(1), _interp.INT_TYPES[m.group(1)]

    def bit_scan(which):
        def h(I, st, args, info):
            ty, w = int_ty(info)
            def f(x):
                if isinstance(x, int):
                    x &= (1 << w) - 1
                    if which == "count_ones":
                        return bin(x).count("1")
                    if x == 0:
                        return w
                    if which == "trailing_zeros":
                        return (x & -x).bit_length() - 1
                    return w - x.bit_length()
                if which == "count_ones":
                    acc = z3.BitVecVal(0, 32)
                    for k in range(w):
                        acc = acc + z3.ZeroExt(31, z3.Extract(k, k, x))
                    return acc
                r = z3.BitVecVal(w, 32)
                order = range(w - 1, -1, -1) if which == "trailing_zeros" else range(w)
                for k in order:
                    # trailing: the lowest set bit wins (scanned last); leading: the highest set bit wins
                    val = k if which == "trailing_zeros" else w - 1 - k
                    r = z3.If(z3.Extract(k, k, x) == 1, z3.BitVecVal(val, 32), r)
                return r
            return umap(f, deref_all(I, args[0], st))
        return h
    for ty_ in ("u8", "u16", "u32", "u64", "usize", "i32", "i64"):
        for which in ("trailing_zeros", "leading_zeros", "count_ones"):
            R["<impl %s>::%s" % (ty_, which)] = bit_scan(which)

    def is_power_of_two(I, st, args, info):
        ty, w = int_ty(info)
        def f(x):
            if isinstance(x, int):
                x &= (1 << w) - 1
                return x != 0 and (x & (x - 1)) == 0
            return z3.And(x != 0, (x & (x - 1)) == 0)
        return umap(f, deref_all(I, args[0], st))
    for ty_ in ("u8", "u16", "u32", "u64", "usize"):
        R["<impl %s>::is_power_of_two" % ty_] = is_power_of_two

    def wrapping(opname):
        def h(I, st, args, info):
            ty, w = int_ty(info)
            a, b = deref_all(I, args[0], st), deref_all(I, args[1], st)
            r, ov = I.binop(opname + "WithOverflow", a, b, ty)
            return r
        return h

    def saturating(opname):
        def h(I, st, args, info):
            ty, w = int_ty(info)
            if ty[0] == "i":
                raise Unsupported("signed saturating arithmetic")
            a, b = deref_all(I, args[0], st), deref_all(I, args[1], st)
            r, ov = I.binop(opname + "WithOverflow", a, b, ty)
            sat = 0 if opname == "Sub" else (1 << w) - 1
            if ov is True:
                return sat
            if ov is False:
                return r
            return z3.If(ov, z3.BitVecVal(sat, w), r if is_sym(r) else z3.BitVecVal(r, w))
        return h

    def overflowing(opname):
        def h(I, st, args, info):
            ty, w = int_ty(info)
            a, b = deref_all(I, args[0], st), deref_all(I, args[1], st)
            return tuple(I.binop(opname + "WithOverflow", a, b, ty))
        return h
    for ty_ in ("u8", "u16", "u32", "u64", "usize", "i32", "i64"):
        for nm, opn in (("mul", "Mul"), ("add", "Add"), ("sub", "Sub")):
            R["<impl %s>::wrapping_%s" % (ty_, nm)] = wrapping(opn)
            R["<impl %s>::saturating_%s" % (ty_, nm)] = saturating(opn)
            R["<impl %s>::overflowing_%s" % (ty_, nm)] = overflowing(opn)

    @reg("Ord::min", "Ord::max", "cmp::min", "cmp::max")
    def ord_min_max(I, st, args, info):
        a, b = deref_all(I, args[0], st), deref_all(I, args[1], st)
        want_min = info.path.names()[-1] == "min"
        if isinstance(a, int) and isinstance(b, int):
            return min(a, b) if want_min else max(a, b)
        if not (is_scalar(a) and is_scalar(b)):
            raise Unsupported("min/max on non-scalars")
        m = re.search(r"<([ui]\d+|usize|isize) as", info.path.text) or re.search(r"::<([ui]\d+|usize|isize)>", info.path.text)
        if not m:
            raise Unsupported("min/max operand type: " + info.path.text[:80])
        le = I.binop("Le", a, b, m.group(1))
        w = _interp.INT_TYPES[m.group(1)]
        A = a if is_sym(a) else z3.BitVecVal(a, w)
        B = b if is_sym(b) else z3.BitVecVal(b, w)
        return z3.If(le, A, B) if want_min else z3.If(le, B, A)

    @reg("NonZero::new")
    def nonzero_new(I, st, args, info):
        v = args[0]
        if isinstance(v, int):
            return opt_some(Adt("NonZero", None, [v])) if v != 0 else OPT_NONE
        if isinstance(v, Union):
            return umap(lambda x: nonzero_new(I, st, [x], info), v)
        z = v == z3.BitVecVal(0, v.size())
        return merge_many([(b_not(z), opt_some(Adt("NonZero", None, [v]))), (z, OPT_NONE)])

    @reg("NonZero::get")
    def nonzero_get(I, st, args, info):
        return umap(lambda x: x.fields[0], deref_all(I, args[0], st))

    @reg("Option::unwrap_or_default", "Result::unwrap_or_default")
    def unwrap_or_default(I, st, args, info):
        dt = _interp.short_type(info.dest_type() or "")

        def dflt():
            if dt == "String":
                return StringV(())
            if dt.startswith("Vec<"):
                return VecV(())
            if dt in _interp.INT_TYPES:
                return 0
            if dt == "bool":
                return False
            if dt.startswith("Option<"):
                return OPT_NONE
            raise Unsupported("unwrap_or_default for " + dt)
        return merge_many([(g, x.fields[0] if x.variant in ("Some", "Ok") else dflt()) for g, x in alts_of(args[0])])

    @reg("Option::filter")
    def opt_filter(I, st, args, info):
        outs = []
        for g, x in alts_of(args[0]):
            if g is not True and not I.feasible(st.pc, g):
                continue
            st2 = st.fork(g)
            if x.variant != "Some":
                outs.append((st2, x))
                continue
            for s3, r in I.call_value(args[1], [ValRef(x.fields[0])], st2):
                if isinstance(r, Panic):
                    outs.append((s3, r))
                elif r is True or r is False:
                    outs.append((s3, x if r else OPT_NONE))
                else:
                    outs.append((s3, merge_many([(r, x), (b_not(r), OPT_NONE)])))
        return outs

    @reg("Option::or")
    def opt_or(I, st, args, info):
        return merge_many([(g, x if x.variant == "Some" else args[1]) for g, x in alts_of(args[0])])

    @reg("Option::or_else")
    def opt_or_else(I, st, args, info):
        outs = []
        for g, x in alts_of(args[0]):
            st2 = st.fork(g)
            if x.variant == "Some":
                outs.append((st2, x))
            else:
                outs.extend(I.call_value(args[1], [], st2))
        return outs

    @reg("Option::ok_or")
    def opt_ok_or(I, st, args, info):
        return merge_many([(g, res_ok(x.fields[0]) if x.variant == "Some" else res_err(args[1])) for g, x in alts_of(args[0])])

    @reg("Option::ok_or_else")
    def opt_ok_or_else(I, st, args, info):
        outs = []
        for g, x in alts_of(args[0]):
            st2 = st.fork(g)
            if x.variant == "Some":
                outs.append((st2, res_ok(x.fields[0])))
            else:
                for s3, r in I.call_value(args[1], [], st2):
                    outs.append((s3, r if isinstance(r, Panic) else res_err(r)))
        return outs

    @reg("Result::ok")
    def res_to_ok(I, st, args, info):
        return merge_many([(g, opt_some(x.fields[0]) if x.variant == "Ok" else OPT_NONE) for g, x in alts_of(args[0])])

    @reg("Result::err")
    def res_to_err(I, st, args, info):
        return merge_many([(g, opt_some(x.fields[0]) if x.variant == "Err" else OPT_NONE) for g, x in alts_of(args[0])])

    @reg("Result::is_ok")
    def res_is_ok(I, st, args, info):
        v = deref_all(I, args[0], st)
        return b_or(*[g for g, x in alts_of(v) if x.variant == "Ok"])

    @reg("Result::and_then")
    def res_and_then(I, st, args, info):
        return call_on_variant(I, st, args[0], ("Ok",), args[1], lambda r: r, lambda x: x)

    @reg("Result::is_ok_and")
    def res_is_ok_and(I, st, args, info):
        return call_on_variant(I, st, args[0], ("Ok",), args[1], lambda r: r, lambda x: False)

    @reg("Result::is_err_and")
    def res_is_err_and(I, st, args, info):
        return call_on_variant(I, st, args[0], ("Err",), args[1], lambda r: r, lambda x: False)

    @reg("Option::is_none_or")
    def opt_is_none_or(I, st, args, info):
        return call_on_variant(I, st, args[0], ("Some",), args[1], lambda r: r, lambda x: True)

    @reg("Option::map_or")
    def opt_map_or(I, st, args, info):
        return call_on_variant(I, st, args[0], ("Some",), args[2], lambda r: r, lambda x: args[1])

    @reg("Result::map_or")
    def res_map_or(I, st, args, info):
        return call_on_variant(I, st, args[0], ("Ok",), args[2], lambda r: r, lambda x: args[1])

    @reg("Option::copied", "Option::cloned")
    def opt_copied(I, st, args, info):
        return merge_many([(g, opt_some(deref_all(I, x.fields[0], st)) if x.variant == "Some" else x) for g, x in alts_of(args[0])])

    @reg("<impl str>::starts_with", "<impl str>::ends_with")
    def str_starts_ends(I, st, args, info):
        hay = list(as_str_items(I, args[0], st))
        pv = deref_all(I, args[1], st)
        front = info.path.names()[-1] == "starts_with"
        if isinstance(pv, (Closure, FnItem)):
            raise Unsupported("starts_with/ends_with with a predicate")
        needle = [pv] if is_scalar(pv) else list(as_str_items(I, pv, st))
        if len(needle) > len(hay):
            return False
        part = hay[:len(needle)] if front else hay[len(hay) - len(needle):]
        return b_and(*[chr_eq(c, n) if isinstance(n, int) else (c == n if isinstance(c, int) else c == n) for c, n in zip(part, needle)])

    @reg("<impl str>::as_bytes")
    def str_as_bytes(I, st, args, info):
        items = list(as_str_items(I, args[0], st))
        if all(isinstance(c, int) for c in items):
            return SliceV(tuple("".join(map(chr, items)).encode("utf-8")))
        out = []
        for c in items:
            if isinstance(c, int):
                out.extend(chr(c).encode("utf-8"))
            elif isinstance(c, Seg) or I.feasible(st.pc, z3.UGE(c, 128)):
                raise Unsupported("as_bytes of symbolic text (possibly multi-byte characters)")
            else:
                out.append(z3.Extract(7, 0, c))          # ASCII on this path: one byte, the code point itself
        return SliceV(tuple(out))

    # ----------------------------------------------------------------- batch 3: caches, locks, environment, more strings
    def inner_ptr(I, st, r, what):
        if isinstance(r, Ref):
            return Ref(r.key, tuple(r.path) + (("field", 0, None),)), I.read_ref(r, st).fields[0]
        raise Unsupported("%s through a snapshot reference" % what)

    @reg("Mutex::new", "RwLock::new")
    def lock_new(I, st, args, info):
        return Adt("Cell", None, [args[0]])

    @reg("Mutex::lock", "RwLock::read", "RwLock::write", "Mutex::try_lock")
    def lock_lock(I, st, args, info):
        """single-threaded execution: locks are always free; poisoning does not occur (no panic while held is modelled)"""
        r = args[0]
        if isinstance(r, Ref):
            ptr = Ref(r.key, tuple(r.path) + (("field", 0, None),))
        else:
            ptr = ValRef(deref_all(I, r, st).fields[0])
        return res_ok(Adt("RefGuard", None, [ptr]))

    @reg("OnceLock::new", "OnceCell::new")
    def once_new(I, st, args, info):
        return Adt("Cell", None, [OPT_NONE])

    @reg("OnceLock::get", "OnceCell::get")
    def once_get(I, st, args, info):
        cur = deref_all(I, args[0], st).fields[0]
        return umap(lambda o: opt_some(ValRef(o.fields[0])) if o.variant == "Some" else OPT_NONE, cur)

    @reg("OnceLock::set", "OnceCell::set")
    def once_set(I, st, args, info):
        ptr, cur = inner_ptr(I, st, args[0], "OnceLock::set")
        outs = []
        for g, o in alts_of(cur):
            st2 = st.fork(g)
            if o.variant == "Some":
                outs.append((st2, res_err(args[1])))
            else:
                I.write_cell(ptr.key, ptr.path, opt_some(args[1]), st2)
                outs.append((st2, res_ok(())))
        return outs

    @reg("OnceLock::get_or_init", "OnceCell::get_or_init")
    def once_get_or_init(I, st, args, info):
        ptr, cur = inner_ptr(I, st, args[0], "OnceLock::get_or_init")
        outs = []
        for g, o in alts_of(cur):
            if g is not True and not I.feasible(st.pc, g):
                continue
            st2 = st.fork(g)
            if o.variant == "Some":
                outs.append((st2, ValRef(o.fields[0])))
                continue
            for s3, v in I.call_value(args[1], [], st2):
                if isinstance(v, Panic):
                    outs.append((s3, v))
                else:
                    I.write_cell(ptr.key, ptr.path, opt_some(v), s3)
                    outs.append((s3, ValRef(v)))
        return outs

    def nondet_string(I, what, n=3):
        I.nondet_reads.append(what)
        k = len(I.nondet_reads)
        return StringV([z3.BitVec("env_%d_%d" % (k, i), 32) for i in range(n)])

    @reg("env::var", "env::var_os")
    def env_var(I, st, args, info):
        present = z3.Bool("env_present_%d" % (len(I.nondet_reads) + 1))
        sv = nondet_string(I, "environment variable")
        if info.path.last() == "var_os":
            return Outcomes([(present, opt_some(sv)), (z3.Not(present), OPT_NONE)])
        return Outcomes([(present, res_ok(sv)), (z3.Not(present), res_err(Adt("VarError", "NotPresent")))])

    @reg("Instant::now")
    def instant_now(I, st, args, info):
        I.nondet_reads.append("monotonic clock")
        return Adt("Instant", None, [z3.BitVec("instant_%d" % len(I.nondet_reads), 64)])

    @reg("thread::current", "Thread::id")
    def thread_current(I, st, args, info):
        I.nondet_reads.append("thread identity")
        return Adt("Thread", None, [z3.BitVec("thread_%d" % len(I.nondet_reads), 64)])

    @reg("RandomState::new", "::random", "rand::random", "thread_rng")
    def random_state(I, st, args, info):
        I.nondet_reads.append("random state")
        return Adt("Random", None, [z3.BitVec("random_%d" % len(I.nondet_reads), 64)])

    @reg("String::with_capacity")
    def string_with_capacity(I, st, args, info):
        return StringV(())

    @reg("Vec::with_capacity")
    def vec_with_capacity(I, st, args, info):
        return VecV(())

    @reg("String::clear", "Vec::clear")
    def clear_(I, st, args, info):
        r = args[0]
        cur = I.read_ref(r, st)
        I.write_cell(r.key, r.path, umap(lambda c: StringV(()) if isinstance(c, StringV) else VecV(()), cur), st)
        return ()

    @reg("String::as_str", "String::as_mut_str")
    def string_as_str_(I, st, args, info):
        return umap(lambda x: string_as_str(x) if isinstance(x, StringV) else x, deref_all(I, args[0], st))

    @reg("Vec::truncate")
    def vec_truncate(I, st, args, info):
        r = args[0]
        cur = I.read_ref(r, st)
        alts = []
        for g, v in alts_of(cur):
            L = len(v.items)
            for gn, n in alts_of(args[1]):
                gg = b_and(g, gn)
                if gg is False:
                    continue
                if isinstance(n, int):
                    alts.append((gg, VecV(v.items[:n]) if n < L else v))
                else:
                    for k in range(L):
                        alts.append((b_and(gg, n == z3.BitVecVal(k, n.size())), VecV(v.items[:k])))
                    alts.append((b_and(gg, z3.UGE(n, z3.BitVecVal(L, n.size()))), v))
        I.write_cell(r.key, r.path, merge_many([(g, v) for g, v in alts if g is not False]), st)
        return ()

    @reg("Vec::pop")
    def vec_pop(I, st, args, info):
        r = args[0]
        cur = I.read_ref(r, st)
        if isinstance(cur, Union):
            raise Unsupported("Vec::pop on a union")
        if not cur.items:
            return OPT_NONE
        I.write_cell(r.key, r.path, VecV(cur.items[:-1]), st)
        return opt_some(cur.items[-1])

    @reg("Vec::extend_from_slice")
    def vec_extend_from_slice(I, st, args, info):
        r = args[0]
        cur = I.read_ref(r, st)
        add = tuple(seq_of(I, args[1], st))
        I.write_cell(r.key, r.path, umap(lambda c: VecV(c.items + add), cur), st)
        return ()

    @reg("Vec::insert")
    def vec_insert(I, st, args, info):
        r = args[0]
        cur = I.read_ref(r, st)
        i = args[1]
        if isinstance(cur, Union) or not isinstance(i, int):
            raise Unsupported("Vec::insert with a symbolic position")
        if i > len(cur.items):
            raise PanicExc("insertion index is out of bounds")
        I.write_cell(r.key, r.path, VecV(cur.items[:i] + (args[2],) + cur.items[i:]), st)
        return ()

    WS = (9, 10, 11, 12, 13, 32, 0x85, 0xA0, 0x1680) + tuple(range(0x2000, 0x200B)) + (0x2028, 0x2029, 0x202F, 0x205F, 0x3000)

    def is_ws(c):
        if isinstance(c, int):
            return c in WS
        return z3.Or(rng(c, 9, 13), c == 32, c == 0x85, c == 0xA0, c == 0x1680, rng(c, 0x2000, 0x200A), c == 0x2028, c == 0x2029,
                     c == 0x202F, c == 0x205F, c == 0x3000)
    char_pred("is_whitespace", is_ws, lambda ch: ord(ch) in WS)

    def char_digit(I, st, args, info):
        c = deref_all(I, args[0], st)
        radix = args[1]
        if not isinstance(radix, int) or not (2 <= radix <= 36):
            raise Unsupported("char digit with a symbolic radix")
        which = info.path.last()
        if isinstance(c, int):
            ch = chr(c)
            d = int(ch, 36) if ch.isascii() and ch.isalnum() else None
            ok = d is not None and d < radix
            if which == "is_digit":
                return ok
            return opt_some(d) if ok else OPT_NONE
        dec = z3.And(z3.UGE(c, 48), z3.ULE(c, 48 + min(radix, 10) - 1))
        val = c - 48
        ok = dec
        if radix > 10:
            lo = z3.And(z3.UGE(c, 97), z3.ULE(c, 97 + radix - 11))
            up = z3.And(z3.UGE(c, 65), z3.ULE(c, 65 + radix - 11))
            ok = z3.Or(dec, lo, up)
            val = z3.If(dec, c - 48, z3.If(lo, c - 87, c - 55))
        if which == "is_digit":
            return ok
        return Outcomes([(ok, opt_some(val)), (z3.Not(ok), OPT_NONE)])
    for pre in ("<impl char>", "char", "methods"):
        R["%s::is_digit" % pre] = char_digit
        R["%s::to_digit" % pre] = char_digit

    def trim_model(which):
        def h(I, st, args, info):
            v = deref_all(I, args[0], st)
            if not isinstance(v, StrSlice):
                items = tuple(as_str_items(I, v, st))
                v = StrSlice(SymBuf(items, name="owned"), 0, len(items))
            cs = v.chars()
            n = len(cs)
            starts = [(True, 0)]
            if which in ("trim", "trim_start"):
                starts, lead = [], True
                for i in range(n + 1):
                    stop = True if i == n else b_not(is_ws(cs[i]))
                    g = b_and(lead, stop)
                    if g is not False:
                        starts.append((g, i))
                    if i < n:
                        lead = b_and(lead, is_ws(cs[i]))
                        if lead is False:
                            break
            alts = []
            for g0, a in starts:
                if which in ("trim", "trim_end"):
                    trail = True
                    for j in range(n, a - 1, -1):
                        stop = True if j == a else b_not(is_ws(cs[j - 1]))
                        g = b_and(g0, trail, stop)
                        if g is not False:
                            alts.append((g, StrSlice(v.buf, v.start + a, v.start + j)))
                        if j > a:
                            trail = b_and(trail, is_ws(cs[j - 1]))
                            if trail is False:
                                break
                else:
                    alts.append((g0, StrSlice(v.buf, v.start + a, v.end)))
            alts = [(b_simpl(g) if is_sym(g) else g, x) for g, x in alts]
            if len(alts) == 1:
                return alts[0][1]
            return Outcomes(alts)
        return h
    for w_ in ("trim", "trim_start", "trim_end"):
        R["<impl str>::" + w_] = trim_model(w_)

    @reg("<impl str>::lines")
    def str_lines(I, st, args, info):
        """lines(): split at \n, a \r directly before it belongs to the line ending, the last line needs no ending;
        every symbolic character forks on being a line feed (and, before a line feed, a carriage return)"""
        v = deref_all(I, args[0], st)
        if not isinstance(v, StrSlice):
            items = tuple(as_str_items(I, v, st))
            v = StrSlice(SymBuf(items, name="owned"), 0, len(items))
        cs = v.chars()
        n = len(cs)

        def is_ch(c, k):
            if isinstance(c, int):
                return c == k
            if isinstance(c, Seg):
                return False
            return c == z3.BitVecVal(k, c.size())
        alts = [(True, [], 0)]                 # (guard, finished lines [(a, b)], start of the current line)
        for i in range(n):
            g_nl = is_ch(cs[i], 10)
            if g_nl is False:
                continue
            nxt = []
            for g, done, a in alts:
                if g_nl is not True:
                    gg = b_and(g, b_not(g_nl))
                    if gg is not False and I.feasible(st.pc, gg):
                        nxt.append((gg, done, a))
                g1 = b_and(g, g_nl)
                if g1 is False or (g1 is not True and not I.feasible(st.pc, g1)):
                    continue
                g_cr = is_ch(cs[i - 1], 13) if i > a else False
                for gc, end in ((g_cr, i - 1), (b_not(g_cr), i)):
                    g2 = b_and(g1, gc)
                    if g2 is False or (g2 is not True and not I.feasible(st.pc, g2)):
                        continue
                    nxt.append((g2, done + [(a, end)], i + 1))
            alts = nxt
            if len(alts) > 4096:
                raise Unsupported("too many line splits")
        outs = []
        for g, done, a in alts:
            if a < n:
                done = done + [(a, n)]
            outs.append((b_simpl(g) if is_sym(g) else g, IterV([StrSlice(v.buf, v.start + x, v.start + y) for x, y in done])))
        if len(outs) == 1:
            return outs[0][1]
        return Outcomes(outs)

    @reg("<impl str>::strip_prefix", "<impl str>::strip_suffix")
    def str_strip(I, st, args, info):
        v = deref_all(I, args[0], st)
        if not isinstance(v, StrSlice):
            items = tuple(as_str_items(I, v, st))
            v = StrSlice(SymBuf(items, name="owned"), 0, len(items))
        pv = deref_all(I, args[1], st)
        if isinstance(pv, (Closure, FnItem)):
            raise Unsupported("strip_prefix/suffix with a predicate")
        needle = [pv] if is_scalar(pv) else list(as_str_items(I, pv, st))
        front = info.path.last() == "strip_prefix"
        cs = v.chars()
        if len(needle) > len(cs):
            return OPT_NONE
        part = cs[:len(needle)] if front else cs[len(cs) - len(needle):]
        g = b_and(*[(a == b) if isinstance(a, int) and isinstance(b, int) else I.sym_eq(a, b) for a, b in zip(part, needle)])
        rest = StrSlice(v.buf, v.start + len(needle), v.end) if front else StrSlice(v.buf, v.start, v.end - len(needle))
        if g is True:
            return opt_some(rest)
        if g is False:
            return OPT_NONE
        return Outcomes([(g, opt_some(rest)), (b_not(g), OPT_NONE)])

    @reg("<impl str>::char_indices")
    def char_indices(I, st, args, info):
        items = list(as_str_items(I, args[0], st))
        return IterV([(byte_len_of(items[:i]), c) for i, c in enumerate(items)])

    @reg("<impl str>::to_ascii_lowercase", "<impl str>::to_ascii_uppercase", "<impl str>::to_lowercase", "<impl str>::to_uppercase")
    def str_case(I, st, args, info):
        which = info.path.last()
        lower = "lower" in which
        out = []
        for c in as_str_items(I, args[0], st):
            if isinstance(c, Seg):
                out.append(c)
            elif isinstance(c, int):
                if "ascii" in which:
                    out.append(c + 32 if lower and 65 <= c <= 90 else c - 32 if (not lower) and 97 <= c <= 122 else c)
                else:
                    t = chr(c).lower() if lower else chr(c).upper()
                    out.extend(map(ord, t))
            else:
                if "ascii" not in which and I.feasible(st.pc, z3.UGE(c, 0x80)):
                    raise Unsupported("Unicode case mapping of a symbolic character")
                out.append(z3.If(z3.And(z3.UGE(c, 65), z3.ULE(c, 90)), c + 32, c) if lower else z3.If(z3.And(z3.UGE(c, 97), z3.ULE(c, 122)), c - 32, c))
        return StringV(out)

    @reg("<impl str>::eq_ignore_ascii_case")
    def str_eq_icase(I, st, args, info):
        a, b = list(as_str_items(I, args[0], st)), list(as_str_items(I, args[1], st))
        if len(a) != len(b):
            return False

        def low(c):
            if isinstance(c, int):
                return c + 32 if 65 <= c <= 90 else c
            return z3.If(z3.And(z3.UGE(c, 65), z3.ULE(c, 90)), c + 32, c)
        return b_and(*[(low(x) == low(y)) if isinstance(x, int) and isinstance(y, int) else I.sym_eq(low(x), low(y)) for x, y in zip(a, b)])

    @reg("Iterator::sum")
    def it_sum(I, st, args, info):
        def k(items, s2):
            if not items:
                return 0
            gens = info.path.generics(-1)
            ty = _interp.short_type(gens[0]) if gens else None
            if ty not in _interp.INT_TYPES:
                raise Unsupported("Iterator::sum::<%s>" % ty)
            acc = deref_all(I, items[0], s2)
            outs_p = False
            for x in items[1:]:
                acc, ov = I.binop("AddWithOverflow", acc, deref_all(I, x, s2), ty)
                outs_p = b_or(outs_p, ov)
            if I.profile == "dev" and outs_p is not False:
                if outs_p is True:
                    raise PanicExc("attempt to add with overflow")
                return [(s2.fork(b_not(outs_p)), acc), (s2.fork(outs_p), Panic("attempt to add with overflow", "core::iter::sum"))]
            return acc
        return consume(I, args[0], st, k, unordered_ok=True)

    for n in ("Option::unwrap", "Result::unwrap", "Option::expect", "Result::expect", "Option::unwrap_or", "Result::unwrap_or",
              "Option::is_none", "Option::is_some", "Result::is_err", "Option::as_ref", "Result::as_ref", "Result::or_else",
              "Result::map_err", "Result::map", "Option::map", "Option::and_then", "Option::is_some_and",
              "Result::unwrap_or_else", "Option::unwrap_or_else", "Try::branch", "FromResidual::from_residual",
              "PartialEq::eq", "PartialEq::ne", "Clone::clone", "ToOwned::to_owned", "String::push_str", "String::push",
              "Vec::push", "Vec::len", "Vec::is_empty", "Vec::as_slice", "<impl [T]>::first", "<impl [T]>::last",
              "<impl [T]>::iter", "<impl str>::is_empty", "String::is_empty", "String::len", "::must_use", "must_use",
              "hint::must_use", "mem::drop", "::drop", "Box::new", "Rc::new", "Fn::call", "FnMut::call_mut", "FnOnce::call_once"):
        if n in R:
            R[n].union_ok = True
    from . import fmtmodel, bitflagsmodel
    fmtmodel.register(I, R, fmt_hooks)
    bitflagsmodel.register(I, R)


def path_components(items):
    """[(guard, components)] of a unix path over code-point terms; a component is 'root' | 'cur' | 'parent' | ('normal', (chars...)).
    Repeated and trailing separators and interior '.' components do not count (std::path::Components)."""
    alts = [(True, [])]            # per alternative: the class of each character: '/', '.', other
    for c in items:
        nxt = []
        for g, cl in alts:
            if isinstance(c, int):
                nxt.append((g, cl + ["/" if c == 47 else "." if c == 46 else "o"]))
                continue
            for k, gc in (("/", c == 47), (".", c == 46), ("o", z3.And(c != 47, c != 46))):
                nxt.append((b_and(g, gc), cl + [k]))
        alts = nxt
        if len(alts) > 20000:
            raise Unsupported("path with too many symbolic characters")
    out = []
    for g, cl in alts:
        comps = []
        if cl and cl[0] == "/":
            comps.append("root")
        seg, first = [], True
        for i, k in enumerate(cl + ["/"]):
            if k != "/":
                seg.append(i)
                continue
            if seg:
                kinds = [cl[j] for j in seg]
                if kinds == ["."]:
                    if first and "root" not in comps:
                        comps.append("cur")
                elif kinds == [".", "."]:
                    comps.append("parent")
                else:
                    comps.append(("normal", tuple(items[j] for j in seg)))
                first = False
                seg = []
        out.append((g, comps))
    return out

def path_eq(I, st, a, b):
    xa, xb = tuple(as_str_items(I, a, st)), tuple(as_str_items(I, b, st))
    acc = False
    for g1, c1 in path_components(xa):
        for g2, c2 in path_components(xb):
            g = b_and(g1, g2)
            if g is False or len(c1) != len(c2):
                continue
            for p, q in zip(c1, c2):
                if isinstance(p, str) or isinstance(q, str):
                    if p != q:
                        g = False
                        break
                    continue
                if len(p[1]) != len(q[1]):
                    g = False
                    break
                for x, y in zip(p[1], q[1]):
                    g = b_and(g, (x == y) if (isinstance(x, int) and isinstance(y, int)) else I.sym_eq(x, y))
                if g is False:
                    break
            acc = b_or(acc, g)
    return b_simpl(acc) if is_sym(acc) else acc



class GuardedIter(IterV):
    """iterator whose items are (guard, value): each item is present under its guard; only counting consumers are modelled"""
    __slots__ = ()


class UnorderedIter(IterV):
    """iterator over a HashMap: the order is unspecified, so only order-insensitive consumers may drive it"""
    __slots__ = ()


class ByteLen:
    """a byte count over symbolic text: the UTF-8 length of `items` (code points) plus a constant.  `== 0` is decided
    syntactically when add == 0 (items is never empty); where it is used as a number (winnow `take`, slicing by byte
    offsets, arithmetic) term() gives the exact value as a 64-bit term"""
    __slots__ = ("n", "items", "add")

    def __init__(self, n, items=None, add=0):
        self.n = n
        self.items = items
        self.add = add

    def term(self):
        if self.items is None:
            raise Unsupported("byte length of symbolic text used as a number")
        acc = z3.BitVecVal(self.add & ((1 << 64) - 1), 64)
        for c in self.items:
            acc = acc + utf8_width(c)
        return z3.simplify(acc)


def same_items(a, b):
    return len(a) == len(b) and all((x is y) or (isinstance(x, int) and isinstance(y, int) and x == y) or
                                    (is_sym(x) and is_sym(y) and x.eq(y)) for x, y in zip(a, b))


def bytelen_binop(I, name, x, y, ty):
    """arithmetic / comparison with a ByteLen operand -> result, or NotImplemented to continue on terms"""
    base = name.replace("WithOverflow", "").replace("Unchecked", "")
    wo = name.endswith("WithOverflow")
    if base == "Sub" and isinstance(x, ByteLen) and isinstance(y, ByteLen) and x.items is not None and y.items is not None \
            and x.add == 0 and y.add == 0 and len(y.items) <= len(x.items):
        k = len(x.items) - len(y.items)
        if same_items(x.items[k:], y.items):          # len(whole) - len(suffix) = len(prefix)
            r = byte_len_of(x.items[:k])
            return (r, False) if wo else r
        if same_items(x.items[:len(y.items)], y.items):
            r = byte_len_of(x.items[len(y.items):])
            return (r, False) if wo else r
    if base == "Add" and isinstance(x, ByteLen) and isinstance(y, int) and 0 <= y < (1 << 32) and x.items is not None:
        r = ByteLen(x.n, x.items, x.add + y)
        return (r, False) if wo else r
    if base == "Add" and isinstance(y, ByteLen) and isinstance(x, int) and 0 <= x < (1 << 32) and y.items is not None:
        r = ByteLen(y.n, y.items, y.add + x)
        return (r, False) if wo else r
    return NotImplemented


def utf8_width(c):
    if isinstance(c, int):
        return z3.BitVecVal(len(chr(c).encode("utf-8")), 64)
    one = lambda k: z3.BitVecVal(k, 64)
    return z3.If(z3.ULT(c, 0x80), one(1), z3.If(z3.ULT(c, 0x800), one(2), z3.If(z3.ULT(c, 0x10000), one(3), one(4))))


def byte_len_of(items):
    items = tuple(items)
    if len(items) == 0:
        return 0
    if all(isinstance(c, int) for c in items):
        return len("".join(map(chr, items)).encode("utf-8"))
    return ByteLen(len(items), items)


class MapV:
    """HashMap as an insertion-ordered association list (iteration order is modelled separately)"""
    __slots__ = ("entries",)

    def __init__(self, entries):
        self.entries = tuple(entries)

    def lookup(self, I, key, st):
        """-> [(guard, value | None)]"""
        res = []
        miss = True
        for k, v in self.entries:
            eq = struct_eq(I, k, key, st)
            g = b_and(miss, eq)
            if g is not False:
                res.append((g, v))
            miss = b_and(miss, b_not(eq))
            if miss is False:
                break
        if miss is not False:
            res.append((miss, None))
        return res

    def insert(self, I, key, val, st):
        """-> (new map, [(guard, old | None)])   symbolic key equality is resolved into unions"""
        look = self.lookup(I, key, st)
        if len(look) == 1 and look[0][1] is None:
            return type(self)(self.entries + ((key, val),)), look
        if all(g is True or g is False for g, _ in look):
            ents = []
            for k, v in self.entries:
                if struct_eq(I, k, key, st) is True:
                    ents.append((k, val))
                else:
                    ents.append((k, v))
            return type(self)(ents), look
        raise Unsupported("HashMap insert with symbolic key equality")

    def __repr__(self):
        return "map{%s}" % ", ".join("%r: %r" % e for e in self.entries)


class SetV(MapV):
    """HashSet: a MapV whose values are ()"""
    __slots__ = ()


fmt_hooks = {}


def fmt_display(I, v, st, info):
    return fmt_hooks["display"](I, v, st, info)
