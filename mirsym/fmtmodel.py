# Model of core::fmt as lowered by the installed nightly (template byte-code, see
# library/core/src/fmt/mod.rs "fmt::Arguments::new()") and of Display/Debug rendering into ropes.
import z3
from .values import *
from . import interp as _interp
from .interp import Unsupported, PanicExc, Outcomes


class CharV:
    """a value known (from the declaration) to be a char, for Debug rendering"""
    __slots__ = ("c",)

    def __init__(self, c):
        self.c = c


class FmtArg:
    __slots__ = ("kind", "v")

    def __init__(self, kind, v):
        self.kind, self.v = kind, v

    def __repr__(self):
        return "arg:%s(%r)" % (self.kind, self.v)


class ArgsV:
    """fmt::Arguments: pieces = [('lit', str) | ('ph', argindex, flags, width, precision)] + args"""
    __slots__ = ("pieces", "args")

    def __init__(self, pieces, args):
        self.pieces, self.args = pieces, args


class FormatterV:
    __slots__ = ("buf", "flags", "width")

    def __init__(self, buf, flags=0x60000020, width=None):
        self.buf, self.flags, self.width = buf, flags, width


_cell_n = [0]


def new_cell(st, v):
    _cell_n[0] += 1
    k = ("heap", _cell_n[0])
    st.store[k] = v
    return k


def decode_template(bs):
    pieces = []
    i = 0
    nxt = 0
    while True:
        b = bs[i]
        if b == 0:
            break
        if b == 0x80:
            n = bs[i + 1] | (bs[i + 2] << 8)
            pieces.append(("lit", bytes(bs[i + 3:i + 3 + n]).decode("utf-8")))
            i += 3 + n
        elif b < 0x80:
            pieces.append(("lit", bytes(bs[i + 1:i + 1 + b]).decode("utf-8")))
            i += 1 + b
        else:
            if b & 0xC0 != 0xC0:
                raise Unsupported("template byte %#x" % b)
            i += 1
            flags, width, prec, idx = 0x60000020, None, None, None
            if b & 1:
                flags = int.from_bytes(bytes(bs[i:i + 4]), "little")
                i += 4
            if b & 2:
                width = int.from_bytes(bytes(bs[i:i + 2]), "little")
                i += 2
            if b & 4:
                prec = int.from_bytes(bytes(bs[i:i + 2]), "little")
                i += 2
            if b & 8:
                idx = int.from_bytes(bytes(bs[i:i + 2]), "little")
                i += 2
            if b & 0x30:
                raise Unsupported("indirect width/precision")
            if idx is None:
                idx = nxt
            nxt = idx + 1
            pieces.append(("ph", idx, flags, width, prec))
    return pieces


ALT = 1 << 23
ZERO = 1 << 24


def dec_items(v, bits=None):
    if isinstance(v, Union) and all(isinstance(x, int) and not isinstance(x, bool) for _, x in v.alts):
        # integers merged before their width was known: widest plausible width (u64) keeps the value exact
        acc = z3.BitVecVal(v.alts[-1][1], 64)
        for g, x in reversed(v.alts[:-1]):
            acc = z3.If(g, z3.BitVecVal(x, 64), acc)
        return [Seg("dec", acc, 64)]
    if isinstance(v, bool):
        return [ord(c) for c in ("true" if v else "false")]
    if isinstance(v, int):
        return [ord(c) for c in str(v)]
    if is_sym(v) and z3.is_bv(v):
        return [Seg("dec", v, v.size())]
    if is_sym(v) and z3.is_bool(v):
        return [Seg("bool", v)]
    raise Unsupported("decimal rendering of %r" % (v,))


class AltSeq:
    """rope item standing for one of several item sequences, depending on a guard (expanded into a union of strings when
    the formatted text is assembled)"""
    __slots__ = ("alts",)

    def __init__(self, alts):
        self.alts = alts


def debug_char_alts(c, quote):
    """<char as Debug> / str::escape_debug of a symbolic character, exact on ASCII; beyond ASCII the rendering stays opaque"""
    bv = lambda k: z3.BitVecVal(k, 32)
    special = z3.Or(c == quote, c == 92)
    ctrl = z3.And(z3.Or(z3.ULT(c, 32), c == 127), c != 10, c != 13, c != 9, c != 0)
    plain = z3.And(z3.UGE(c, 32), z3.ULE(c, 126), z3.Not(special))
    return AltSeq([(special, [92, c]), (c == 10, [92, 110]), (c == 13, [92, 114]), (c == 9, [92, 116]), (c == 0, [92, 48]),
                   (ctrl, [92, 117, 123, Seg("lower_hex", c, (None, False, False)), 125]), (plain, [c]),
                   (z3.UGE(c, 128), [Seg("dbgchar", c)])])


def expand_alts(items):
    """[(guard, items)] for a rope that may contain AltSeq items"""
    alts = [(True, [])]
    for it in items:
        if isinstance(it, AltSeq):
            nxt = []
            for g, acc in alts:
                for g2, seq in it.alts:
                    gg = b_and(g, g2)
                    if gg is not False:
                        nxt.append((gg, acc + list(seq)))
            alts = nxt
            if len(alts) > 5000:
                raise Unsupported("too many Debug alternatives")
        else:
            for _, acc in alts:
                acc.append(it)
    return alts


def escape_debug_char(c, quote):
    if c == quote or c == 92:
        return [92, c]
    if c == 10:
        return [92, 110]
    if c == 13:
        return [92, 114]
    if c == 9:
        return [92, 116]
    if c == 0:
        return [92, 48]
    if c < 32 or c == 127:
        return [ord(x) for x in "\\u{%x}" % c]
    ch = chr(c)
    if c > 127 and not ch.isprintable():
        return [ord(x) for x in "\\u{%x}" % c]
    return [c]


def register(I, R, hooks):
    from .stdmodel import deref_all, as_str_items, IterV, MapV, ByteLen

    def reg(*names):
        def d(f):
            for n in names:
                R[n] = f
            return f
        return d

    def ok_unit():
        return Adt("Result", "Ok", [()])

    # ------------------------------------------------------------------ rendering
    def display(I, v, st, flags=0x60000020, width=None):
        """-> tuple of rope items"""
        v = deref_all(I, v, st)
        if isinstance(v, Union):
            raise Unsupported("Display of a union value")
        if isinstance(v, (StrSlice, StringV)):
            return tuple(as_str_items(I, v, st))
        if isinstance(v, BoxV):
            return display(I, v.v, st, flags, width)
        if isinstance(v, (bool,)) or (is_sym(v) and z3.is_bool(v)):
            return tuple(dec_items(v))
        if isinstance(v, int) or is_sym(v):
            return tuple(dec_items(v))
        if isinstance(v, _interp.VariantOrCtor):
            v = Adt(v.enum, v.variant)
        if isinstance(v, Adt) and v.ty == "NonZero":
            return display(I, v.fields[0], st, flags, width)
        if isinstance(v, (Adt, Struct)):
            return call_fmt_impl(I, v, st, "Display", flags, width)
        raise Unsupported("Display of %r" % (v,))

    def call_fmt_impl(I, v, st, trait, flags, width):
        path = _interp.parse_path("<%s as std::fmt::%s>::fmt" % (v.ty, trait))
        r = I.P.resolve_fn(path)
        if r is None:
            raise Unsupported("%s impl for %s" % (trait, v.ty))
        cell = new_cell(st, FormatterV(StringV(()), flags, width))
        outs = I.call_fn(r[0], [ValRef(v), Ref(cell)], st, r[1])
        if len(outs) != 1 or isinstance(outs[0][1], Panic):
            raise Unsupported("fmt impl of %s forked or panicked" % v.ty)
        s2 = outs[0][0]
        f = s2.store[cell]
        st.store.update(s2.store)
        del st.store[cell]
        if isinstance(f.buf, Union):
            raise Unsupported("Display impl of %s produced a union rope" % v.ty)
        return f.buf.items

    def char_display(c):
        return (c,)

    def debug(I, v, st, alt=False, indent=0):
        v = deref_all(I, v, st)
        if isinstance(v, Union):
            raise Unsupported("Debug of a union value")
        if isinstance(v, _interp.VariantOrCtor):
            v = Adt(v.enum, v.variant)
        if isinstance(v, CharV):
            c = v.c
            if isinstance(c, int):
                return tuple([39] + escape_debug_char(c, 39) + [39])
            return (39, Seg("dbgchar", c), 39)
        if isinstance(v, (StrSlice, StringV)):
            items = as_str_items(I, v, st)
            out = [34]
            for c in items:
                if isinstance(c, int):
                    out.extend(escape_debug_char(c, 34))
                elif isinstance(c, Seg):
                    raise Unsupported("Debug of formatted rope")
                elif getattr(I, "expand_debug_chars", False):
                    out.append(debug_char_alts(c, 34))
                else:
                    out.append(Seg("dbgchar", c))
            out.append(34)
            return tuple(out)
        if isinstance(v, BoxV):
            return debug(I, v.v, st, alt, indent)
        if isinstance(v, bool) or isinstance(v, int) or is_sym(v):
            return tuple(dec_items(v))
        if isinstance(v, Adt) and v.ty in ("Mode", "SFlag") and v.variant is None:
            bits = v.fields[0]
            if not isinstance(bits, int):
                return tuple([ord(c) for c in v.ty + "("] + [Seg("flags", bits, v.ty)] + [41])
            names = []
            rem = bits
            for name, f in I.P.funcs.items():
                if f.kind == "const" and _interp.short_type(f.ret or "") == v.ty and "::S_" in name:
                    fb = I.eval_const_item(f).fields[0]
                    if fb and (bits & fb) == fb and (rem & fb):
                        names.append(name.split("::")[-1])
                        rem &= ~fb
            if rem:
                names.append("%#x" % rem)
            txt = " | ".join(names) if names else "0x0"
            return tuple(ord(c) for c in "%s(%s)" % (v.ty, txt))
        # hand-written Debug impls of crate types take precedence over the structural rendering
        if isinstance(v, (Adt, Struct)):
            key = ("Debug", "fmt")
            for pat, gens, fname, derived, _tf in I.P.trait_impls.get(key, []):
                if _interp.type_head(pat) == v.ty and not derived:
                    flags = 0x60000020 | (ALT if alt else 0)
                    return call_fmt_impl(I, v, st, "Debug", flags, None)
        def pad(items):
            """PadAdapter: indent every line of a nested pretty rendering by four spaces"""
            out = [32, 32, 32, 32]
            for c in items:
                out.append(c)
                if c == 10:
                    out += [32, 32, 32, 32]
            return out

        def seq(open_, close, parts, named=None):
            out = list(open_)
            if alt:
                out.append(10)
                for i, f in enumerate(parts):
                    inner = list(debug(I, f, st, True))
                    if named:
                        inner = [ord(c) for c in named[i]] + [58, 32] + inner
                    out += pad(inner) + [44, 10]
            else:
                for i, f in enumerate(parts):
                    if i:
                        out += [44, 32]
                    if named:
                        out += [ord(c) for c in named[i]] + [58, 32]
                    out += list(debug(I, f, st, False))
            return tuple(out + list(close))

        if isinstance(v, Adt):
            name = [ord(c) for c in (v.variant or v.ty)]
            if not v.fields:
                return tuple(name)
            fts = I.P.variant_field_types.get((v.ty, v.variant), [])
            fields = [CharV(f) if i < len(fts) and fts[i] == "char" else f for i, f in enumerate(v.fields)]
            return seq(name + [40], [41], fields)
        if isinstance(v, Struct):
            name = [ord(c) for c in v.ty]
            if alt:
                return seq(name + [32, 123], [125], v.fields, v.names)
            return seq(name + [32, 123, 32], [32, 125], v.fields, v.names)
        if isinstance(v, (VecV, SliceV)):
            items = v.items if isinstance(v, VecV) else v.elems()
            if not items:
                return (91, 93)
            return seq([91], [93], items)
        if isinstance(v, tuple):
            if not v:
                return (40, 41)
            return seq([40], [41], v)
        raise Unsupported("Debug of %r" % (v,))

    def render_arg(I, arg, st, flags, width):
        k = arg.kind
        if k == "display":
            return display(I, arg.v, st, flags, width)
        if k == "display_char":
            return (deref_all(I, arg.v, st),)
        if k == "debug":
            return debug(I, arg.v, st, bool(flags & ALT))
        if k in ("lower_hex", "upper_hex", "octal"):
            v = deref_all(I, arg.v, st)
            if isinstance(v, int):
                s = {"lower_hex": "%x", "upper_hex": "%X", "octal": "%o"}[k] % v
                if flags & ALT:
                    s = {"lower_hex": "0x", "upper_hex": "0x", "octal": "0o"}[k] + s
                if width and len(s) < width:
                    s = ("0" if flags & ZERO else " ") * (width - len(s)) + s
                return tuple(ord(c) for c in s)
            return (Seg(k, v, (width, bool(flags & ZERO), bool(flags & ALT))),)
        raise Unsupported("format argument kind " + k)

    def render(I, a, st):
        # arguments containing guarded unions (at any depth): render per union-free instance and merge the ropes
        for idx, arg in enumerate(a.args):
            v = deref_all(I, arg.v, st)
            inst = flatten_value(v)
            if len(inst) > 1:
                alts = []
                for g, x in inst:
                    if not I.feasible(st.pc, g):
                        continue
                    args2 = list(a.args)
                    args2[idx] = FmtArg(arg.kind, x)
                    alts.append((g, render(I, ArgsV(a.pieces, args2), st.fork(g))))
                return merge_many(alts)
        out = []
        for p in a.pieces:
            if p[0] == "lit":
                out.extend(ord(c) for c in p[1])
            else:
                _, idx, flags, width, prec = p
                if prec is not None:
                    raise Unsupported("precision in format")
                arg = a.args[idx]
                items = render_arg(I, arg, st, flags, width)
                if width is not None and arg.kind in ("display", "debug", "display_char"):
                    n = len(items)
                    if any(isinstance(x, Seg) for x in items):
                        raise Unsupported("padded symbolic segment")
                    if n < width:
                        # core::fmt::Formatter::pad / pad_integral on concrete text
                        if not all(isinstance(x, int) for x in items):
                            raise Unsupported("padding of symbolic text")
                        val = deref_all(I, arg.v, st)
                        numeric = isinstance(val, int) and not isinstance(val, bool) and arg.kind == "display"
                        fill = flags & 0x1FFFFF
                        align = (flags >> 29) & 3
                        pad = width - n
                        if numeric and flags & ZERO:
                            sign = [items[0]] if items and items[0] in (43, 45) else []
                            items = tuple(sign) + (48,) * pad + tuple(items[len(sign):])
                        else:
                            if align == 3:
                                align = 1 if numeric else 0
                            left = 0 if align == 0 else pad if align == 1 else pad // 2
                            items = (fill,) * left + tuple(items) + (fill,) * (pad - left)
                out.extend(items)
        if any(isinstance(x, AltSeq) for x in out):
            alts = [(g, StringV(o)) for g, o in expand_alts(out) if I.feasible(st.pc, g)]
            if not alts:
                raise Unsupported("no feasible Debug alternative")
            return merge_many(alts)
        return StringV(out)
    I.render_args = render

    # ------------------------------------------------------------------ intrinsics
    def argctor(kind):
        def h(I, st, args, info):
            k = kind
            if kind == "display":
                gens = info.path.generics(-1)
                if gens and _interp.short_type(gens[0]).replace("&", "").replace("mut ", "").strip() == "char":
                    k = "display_char"
            return FmtArg(k, args[0])
        h.__name__ = "fmt_arg_" + kind
        return h
    R["Argument::new_display"] = argctor("display")
    R["Argument::new_debug"] = argctor("debug")
    R["Argument::new_lower_hex"] = argctor("lower_hex")
    R["Argument::new_upper_hex"] = argctor("upper_hex")
    R["Argument::new_octal"] = argctor("octal")

    @reg("Arguments::new")
    def args_new(I, st, args, info):
        tpl = deref_all(I, args[0], st)
        arr = deref_all(I, args[1], st)
        bs = list(tpl.elems()) if isinstance(tpl, SliceV) else list(tpl)
        return ArgsV(decode_template(bs), list(arr.elems()) if isinstance(arr, SliceV) else list(arr))

    @reg("Arguments::from_str", "Arguments::new_const")
    def args_from_str(I, st, args, info):
        s = deref_all(I, args[0], st)
        return ArgsV([("lit", "".join(map(chr, s.chars())))], [])

    @reg("fmt::format", "::format", "format")
    def format_(I, st, args, info):
        return render(I, args[0], st)

    def fmt_write(I, st, fref, items):
        f = I.read_ref(fref, st)
        if not isinstance(f, FormatterV):
            raise Unsupported("write into %r" % (f,))
        add = items if isinstance(items, (StringV, Union)) else StringV(items)
        if isinstance(f.buf, Union) or isinstance(add, Union):
            alts = []
            for g1, b1 in alts_of(f.buf):
                for g2, b2 in alts_of(add):
                    alts.append((b_and(g1, g2), StringV(b1.items + b2.items)))
            buf = merge_many(alts)
        else:
            buf = StringV(f.buf.items + add.items)
        I.write_cell(fref.key, fref.path, FormatterV(buf, f.flags, f.width), st)

    @reg("Formatter::write_str")
    def write_str(I, st, args, info):
        fmt_write(I, st, args[0], as_str_items(I, args[1], st))
        return ok_unit()

    @reg("Formatter::write_fmt")
    def write_fmt(I, st, args, info):
        fmt_write(I, st, args[0], render(I, args[1], st))
        return ok_unit()

    @reg("Display::fmt")
    def display_fmt(I, st, args, info):
        v = deref_all(I, args[0], st)
        fmt_write(I, st, args[1], display(I, v, st))
        return ok_unit()

    @reg("Debug::fmt")
    def debug_fmt(I, st, args, info):
        f = I.read_ref(args[1], st)
        fmt_write(I, st, args[1], debug(I, args[0], st, bool(f.flags & ALT)))
        return ok_unit()

    @reg("AsDisplay::as_display")
    def as_display(I, st, args, info):
        return args[0]

    def tuple_finish(n):
        def h(I, st, args, info):
            f = I.read_ref(args[0], st)
            name = as_str_items(I, args[1], st)
            fields = args[2:2 + n]
            v = Adt("?", "".join(map(chr, name)), [deref_all(I, x, st) for x in fields])
            fmt_write(I, st, args[0], debug(I, v, st, bool(f.flags & ALT)))
            return ok_unit()
        h.__name__ = "debug_tuple_field%d_finish" % n
        return h
    for n in (1, 2, 3, 4):
        R["Formatter::debug_tuple_field%d_finish" % n] = tuple_finish(n)

    hooks["display"] = lambda I, v, st, info: StringV(display(I, v, st))
    hooks["debug"] = debug
    I.fmt_debug = debug
    I.fmt_display = display
