# Front end of Engine M: parse the text printed by `rustc -Zunpretty=mir` into Python structures.
# Only syntax is handled here; semantics live in interp.py.
import re
from dataclasses import dataclass, field


class MirSyntaxError(Exception):
    pass


# --------------------------------------------------------------------------- low-level scanning
OPEN = {"(": ")", "[": "]", "{": "}"}
CLOSE = {")", "]", "}"}


def skip_quote(s, i):
    """s[i] is a quote character starting a string/char literal; return index after it."""
    q = s[i]
    j = i + 1
    while j < len(s):
        if s[j] == "\\":
            j += 2
            continue
        if s[j] == q:
            return j + 1
        j += 1
    raise MirSyntaxError("unterminated literal in %r" % s[i:i + 40])


def is_char_lit(s, i):
    """s[i] == "'" : char literal (as opposed to a lifetime)?"""
    if i + 1 >= len(s):
        return False
    if s[i + 1] == "\\":
        return True
    return i + 2 < len(s) and s[i + 2] == "'" and s[i + 1] != "'"


def scan(s, i, stop, angle=False):
    """Scan from i at nesting depth 0 until a character in `stop` is found at depth 0.
    Returns its index (or len(s)).  Quote-aware; brackets ()[]{} nest, <> nest if angle."""
    depth = 0
    n = len(s)
    while i < n:
        c = s[i]
        if c == '"':
            i = skip_quote(s, i)
            continue
        if c == "'" and is_char_lit(s, i):
            i = skip_quote(s, i)
            continue
        if depth == 0 and c in stop:
            return i
        if c in OPEN:
            depth += 1
        elif c in CLOSE:
            depth -= 1
            if depth < 0:
                return i
        elif angle and c == "<":
            depth += 1
        elif angle and c == ">" and s[i - 1] != "-" and s[i - 1] != "=":
            depth -= 1
            if depth < 0:
                return i
        i += 1
    return n


def match_close(s, i, angle=True):
    """s[i] is an opening bracket; return index of its matching close."""
    j = scan(s, i + 1, "", angle=angle)
    if j >= len(s):
        raise MirSyntaxError("unbalanced %r" % s[i:i + 60])
    return j


def split_top(s, sep=","):
    out = []
    i = 0
    start = 0
    while True:
        j = scan(s, i, sep, angle=True)
        if j >= len(s):
            out.append(s[start:].strip())
            break
        if s[j] in CLOSE or s[j] == ">":
            # unbalanced close at depth 0 (e.g. '->' handled in scan); treat as ordinary char
            i = j + 1
            continue
        out.append(s[start:j].strip())
        i = start = j + 1
    if out and out[-1] == "":
        out.pop()
    return out


# --------------------------------------------------------------------------- data structures
@dataclass
class Place:
    local: int
    proj: tuple = ()          # elements: ('deref',) ('field', n) ('downcast', name) ('index', local) ('constindex', n, fromend) ('subslice', a, b, fromend)

    def __repr__(self):
        return "_%d%s" % (self.local, "".join("." + "/".join(map(str, p)) for p in self.proj))


@dataclass
class Operand:
    kind: str                 # 'copy' | 'move' | 'const'
    place: Place = None
    const: object = None      # Const


@dataclass
class Const:
    kind: str                 # 'int' 'bool' 'char' 'str' 'bytes' 'zst' 'path' 'float' 'unit'
    value: object = None
    ty: str = None


@dataclass
class Rvalue:
    kind: str                 # use ref addr aggregate cast binop unop discr len repeat shallowbox nullop copyforderef ptrmeta
    args: tuple = ()


@dataclass
class Stmt:
    kind: str                 # assign | setdiscr | nop
    place: Place = None
    rv: Rvalue = None
    idx: int = None


@dataclass
class Term:
    kind: str                 # goto switch return unreachable resume drop call assert
    target: int = None
    op: Operand = None
    cases: list = None        # [(int, bb)]
    otherwise: int = None
    place: Place = None       # drop place / call destination
    callee: object = None     # str path or Operand
    args: list = None
    expected: bool = None
    msg: str = None
    text: str = None


@dataclass
class Block:
    stmts: list = field(default_factory=list)
    term: Term = None
    cleanup: bool = False


@dataclass
class Func:
    name: str
    kind: str                 # fn const static promoted
    args: list = field(default_factory=list)       # [(local, type)]
    ret: str = None
    locals: dict = field(default_factory=dict)     # n -> type string
    blocks: dict = field(default_factory=dict)
    header: str = ""
    const_value: object = None                     # for `const X: T = const V;` one-liners


# --------------------------------------------------------------------------- places / operands
_num = re.compile(r"\d+")


def parse_place(s):
    s = s.strip()
    p, i = _place(s, 0)
    if i != len(s):
        raise MirSyntaxError("trailing text in place %r" % s)
    return p


def _place(s, i):
    if s[i] == "_":
        m = _num.match(s, i + 1)
        base = Place(int(m.group()))
        i = m.end()
    elif s[i] == "(":
        if s[i + 1] == "*":
            inner, j = _place(s, i + 2)
            assert s[j] == ")", s
            base = Place(inner.local, inner.proj + (("deref",),))
            i = j + 1
        else:
            inner, j = _place(s, i + 1)
            if s.startswith(" as ", j):
                k = s.index(")", j)
                base = Place(inner.local, inner.proj + (("downcast", s[j + 4:k].strip()),))
                i = k + 1
            elif s[j] == ".":
                m = _num.match(s, j + 1)
                k = m.end()
                assert s[k] == ":", s
                e = scan(s, k + 1, "", angle=False)   # matching ')'
                base = Place(inner.local, inner.proj + (("field", int(m.group()), s[k + 1:e].strip()),))
                i = e + 1
            elif s[j] == ")":
                base = inner
                i = j + 1
            else:
                raise MirSyntaxError("place %r at %d" % (s, j))
    else:
        raise MirSyntaxError("place %r" % s)
    while i < len(s) and s[i] == "[":
        e = match_close(s, i, angle=False)
        inside = s[i + 1:e]
        m = re.fullmatch(r"_(\d+)", inside)
        if m:
            base = Place(base.local, base.proj + (("index", int(m.group(1))),))
        else:
            m = re.fullmatch(r"(-?)(\d+) of (\d+)", inside)
            if m:
                base = Place(base.local, base.proj + (("constindex", int(m.group(2)), bool(m.group(1))),))
            else:
                m = re.fullmatch(r"(\d+):(-?)(\d*)", inside)
                if not m:
                    raise MirSyntaxError("index %r" % inside)
                base = Place(base.local, base.proj + (("subslice", int(m.group(1)), int(m.group(3) or 0), bool(m.group(2))),))
        i = e + 1
    return base, i


INT_TYPES = {"u8": 8, "u16": 16, "u32": 32, "u64": 64, "u128": 128, "usize": 64,
             "i8": 8, "i16": 16, "i32": 32, "i64": 64, "i128": 128, "isize": 64}
_int_const = re.compile(r"(-?[\d_]+)_(u8|u16|u32|u64|u128|usize|i8|i16|i32|i64|i128|isize)$")


def unescape(body):
    out = []
    i = 0
    while i < len(body):
        c = body[i]
        if c != "\\":
            out.append(c)
            i += 1
            continue
        d = body[i + 1]
        if d == "n":
            out.append("\n"); i += 2
        elif d == "r":
            out.append("\r"); i += 2
        elif d == "t":
            out.append("\t"); i += 2
        elif d == "0":
            out.append("\0"); i += 2
        elif d in "\\'\"":
            out.append(d); i += 2
        elif d == "x":
            out.append(chr(int(body[i + 2:i + 4], 16))); i += 4
        elif d == "u":
            e = body.index("}", i)
            out.append(chr(int(body[i + 3:e], 16))); i = e + 1
        else:
            raise MirSyntaxError("escape %r" % body[i:i + 6])
    return "".join(out)


def parse_const(s):
    s = s.strip()
    if s.startswith("const "):
        s = s[6:].strip()
    m = _int_const.match(s)
    if m:
        return Const("int", int(m.group(1).replace("_", "")), m.group(2))
    if s in ("true", "false"):
        return Const("bool", s == "true", "bool")
    if s == "()":
        return Const("unit", None, "()")
    if s.startswith('"'):
        e = skip_quote(s, 0)
        return Const("str", unescape(s[1:e - 1]), "&str")
    if s.startswith('b"'):
        e = skip_quote(s, 1)
        return Const("bytes", [ord(c) for c in unescape(s[2:e - 1])], s[e:].strip())
    if s.startswith("'") and is_char_lit(s, 0):
        e = skip_quote(s, 0)
        return Const("char", ord(unescape(s[1:e - 1])), "char")
    if s.startswith("ZeroSized: "):
        return Const("zst", None, s[11:].strip())
    if s.endswith("}}"):
        j = s.find(" {{ ")
        if j > 0:
            fields = []
            for f in split_top(s[j + 4:-2].strip()):
                k = f.index(":")
                fields.append((f[:k].strip(), parse_const(f[k + 1:].strip())))
            return Const("struct", (s[:j].strip(), fields), None)
    if s.startswith("(") and s.endswith(")") and match_close(s, 0, angle=True) == len(s) - 1:
        return Const("tuple", [parse_const(x) for x in split_top(s[1:-1])], None)
    return Const("path", s, None)


def parse_operand(s):
    s = s.strip()
    if s.startswith("copy "):
        return Operand("copy", parse_place(s[5:]))
    if s.startswith("move "):
        return Operand("move", parse_place(s[5:]))
    if s.startswith("no_retag "):
        return parse_operand(s[9:])
    if s.startswith("const "):
        return Operand("const", const=parse_const(s))
    # bare paths (fn items, unit structs, named constants) are constants too
    return Operand("const", const=parse_const(s))


# --------------------------------------------------------------------------- rvalues
BINOPS = {"Add", "Sub", "Mul", "Div", "Rem", "BitXor", "BitAnd", "BitOr", "Shl", "Shr", "Eq", "Lt", "Le",
          "Ne", "Ge", "Gt", "Offset", "Cmp", "AddWithOverflow", "SubWithOverflow", "MulWithOverflow",
          "AddUnchecked", "SubUnchecked", "MulUnchecked", "ShlUnchecked", "ShrUnchecked"}
UNOPS = {"Not", "Neg", "PtrMetadata"}
_call_like = re.compile(r"([A-Za-z_]\w*)\(")


def parse_rvalue(s):
    s = s.strip()
    if s.startswith("&raw const "):
        rest = s[11:].strip()
        if rest.startswith("(fake) "):
            rest = rest[7:]
        return Rvalue("addr", (False, parse_place(rest)))
    if s.startswith("&raw mut "):
        return Rvalue("addr", (True, parse_place(s[9:])))
    if s.startswith("&mut "):
        return Rvalue("ref", (True, parse_place(s[5:])))
    if s.startswith("&fake "):
        return Rvalue("ref", (False, parse_place(s[s.index(" ", 6) + 1:] if s[6:].startswith("shallow") else s[6:])))
    if s.startswith("&/*tls*/ "):
        return Rvalue("use", (Operand("const", const=Const("path", "tls:" + s[9:].strip(), None)),))
    if s.startswith("&") and (s[1] in "_("):
        return Rvalue("ref", (False, parse_place(s[1:])))
    if s.startswith("discriminant("):
        return Rvalue("discr", (parse_place(s[13:-1]),))
    if s.startswith("Len("):
        return Rvalue("len", (parse_place(s[4:-1]),))
    if s.startswith("copy ") or s.startswith("move ") or s.startswith("const ") or s.startswith("no_retag "):
        # possibly a cast:  OPERAND as TYPE (Kind)
        j = find_as(s)
        if j is not None:
            op = parse_operand(s[:j])
            rest = s[j + 4:]
            k = rest.rfind(" (")
            return Rvalue("cast", (op, rest[:k].strip(), rest[k + 2:-1]))
        return Rvalue("use", (parse_operand(s),))
    if s.startswith("CopyForDeref("):
        return Rvalue("use", (Operand("copy", parse_place(s[13:-1])),))
    if s.startswith("ShallowInitBox("):
        a = split_top(s[15:-1])
        return Rvalue("shallowbox", (parse_operand(a[0]), a[1]))
    m = _call_like.match(s)
    if m and m.group(1) in BINOPS and s.endswith(")"):
        a = split_top(s[m.end():-1])
        if len(a) == 2:
            return Rvalue("binop", (m.group(1), parse_operand(a[0]), parse_operand(a[1])))
    if m and m.group(1) in UNOPS and s.endswith(")"):
        return Rvalue("unop", (m.group(1), parse_operand(s[m.end():-1])))
    if m and m.group(1) in ("SizeOf", "AlignOf", "OffsetOf", "UbChecks", "ContractChecks"):
        return Rvalue("nullop", (m.group(1), s[m.end():-1]))
    if s.startswith("["):
        e = match_close(s, 0, angle=True)
        inside = s[1:e]
        semi = scan(inside, 0, ";", angle=True)
        if semi < len(inside):
            return Rvalue("repeat", (parse_operand(inside[:semi]), inside[semi + 1:].strip()))
        return Rvalue("aggregate", ("array", None, [parse_operand(x) for x in split_top(inside)]))
    if s.startswith("("):
        e = match_close(s, 0, angle=True)
        if e == len(s) - 1:
            return Rvalue("aggregate", ("tuple", None, [parse_operand(x) for x in split_top(s[1:e])]))
    # ADT / closure aggregates:   Path(ops)   Path { f: op, .. }   Path
    if s.startswith("{closure@") or s.startswith("{coroutine@"):
        e = match_close(s, 0, angle=False)
        name = s[:e + 1]
        rest = s[e + 1:].strip()
        if rest == "":
            return Rvalue("aggregate", ("closure", name, []))
        assert rest.startswith("{") and rest.endswith("}"), s
        fields = split_top(rest[1:-1])
        return Rvalue("aggregate", ("closure", name, [parse_operand(f.split(":", 1)[1]) for f in fields]))
    # find the top-level '(' or ' {' that starts the field list
    j = scan(s, 0, "({", angle=True)
    if j >= len(s):
        # unit-like aggregate or path constant
        return Rvalue("use", (Operand("const", const=Const("path", s, None)),))
    path = s[:j].strip()
    e = match_close(s, j, angle=True)
    if e != len(s) - 1:
        raise MirSyntaxError("rvalue %r" % s[:200])
    inside = s[j + 1:e]
    if s[j] == "(":
        return Rvalue("aggregate", ("adt", path, [parse_operand(x) for x in split_top(inside)]))
    fields = []
    for f in split_top(inside):
        k = f.index(":")
        fields.append((f[:k].strip(), parse_operand(f[k + 1:])))
    return Rvalue("aggregate", ("struct", path, fields))


def find_as(s):
    """index of top-level ' as ' in an operand-cast rvalue, or None"""
    i = 0
    while True:
        j = scan(s, i, " ", angle=True)
        if j >= len(s):
            return None
        if s.startswith(" as ", j) and s.endswith(")"):
            return j
        i = j + 1


# --------------------------------------------------------------------------- statements / terminators
_bb = re.compile(r"bb(\d+)")


def parse_targets(s):
    """'[return: bb1, unwind continue]' / 'unwind continue' -> dict"""
    d = {}
    s = s.strip()
    if s.startswith("["):
        for part in split_top(s[1:-1]):
            if ":" in part:
                k, v = part.split(":", 1)
                m = _bb.match(v.strip())
                d[k.strip()] = int(m.group(1)) if m else v.strip()
            else:
                d[part.split()[0]] = part
    else:
        m = _bb.match(s)
        if m:
            d["return"] = int(m.group(1))
    return d


def find_arrow(s):
    """index of the last top-level ' -> ' in a terminator line (outside brackets/quotes)."""
    best = None
    i = 0
    depth = 0
    n = len(s)
    while i < n:
        c = s[i]
        if c == '"':
            i = skip_quote(s, i); continue
        if c == "'" and is_char_lit(s, i):
            i = skip_quote(s, i); continue
        if c in OPEN or c == "<":
            depth += 1
        elif c in CLOSE or (c == ">" and s[i - 1] != "-"):
            depth -= 1
        elif depth == 0 and s.startswith(" -> ", i):
            best = i
        i += 1
    return best


def parse_line(line):
    """Returns ('stmt', Stmt) or ('term', Term)"""
    s = line.strip()
    assert s.endswith(";"), s
    s = s[:-1]
    if s == "return":
        return "term", Term("return")
    if s == "unreachable":
        return "term", Term("unreachable")
    if s in ("resume", "abort", "terminate", "terminate(cleanup)", "terminate(abi)"):
        return "term", Term("resume")
    if s.startswith("goto -> "):
        return "term", Term("goto", target=int(_bb.search(s).group(1)))
    if s.startswith("switchInt("):
        e = match_close(s, 9, angle=True)
        op = parse_operand(s[10:e])
        tg = s[e + 1:].strip()
        assert tg.startswith("-> ["), s
        cases, other = [], None
        for part in split_top(tg[4:-1]):
            k, v = part.split(":")
            bb = int(_bb.search(v).group(1))
            if k.strip() == "otherwise":
                other = bb
            else:
                cases.append((int(k.strip().replace("_", "").rstrip("iu8163264sze")) if not re.fullmatch(r"-?\d+", k.strip()) else int(k.strip()), bb))
        return "term", Term("switch", op=op, cases=cases, otherwise=other)
    if s.startswith("drop("):
        e = match_close(s, 4, angle=True)
        t = parse_targets(s[e + 1:].strip()[3:])
        return "term", Term("drop", place=parse_place(s[5:e]), target=t.get("return"))
    if s.startswith("assert("):
        e = match_close(s, 6, angle=True)
        a = split_top(s[7:e])
        cond = a[0]
        expected = True
        if cond.startswith("!"):
            expected = False
            cond = cond[1:]
        t = parse_targets(s[e + 1:].strip()[3:])
        return "term", Term("assert", op=parse_operand(cond), expected=expected, msg=a[1] if len(a) > 1 else "",
                            args=[parse_operand(x) for x in a[2:]], target=t.get("success"))
    if s.startswith("StorageLive(") or s.startswith("StorageDead(") or s == "nop" or s.startswith("FakeRead(") \
            or s.startswith("PlaceMention(") or s.startswith("AscribeUserType(") or s.startswith("Retag(") \
            or s.startswith("Coverage::") or s.startswith("ConstEvalCounter") or s.startswith("BackwardIncompatibleDropHint"):
        return "stmt", Stmt("nop")
    if s.startswith("Deinit("):
        return "stmt", Stmt("nop")
    if s.startswith("discriminant("):
        e = match_close(s, 12, angle=True)
        return "stmt", Stmt("setdiscr", place=parse_place(s[13:e]), idx=int(s[e + 1:].strip()[1:].strip()))
    if s.startswith("assume("):
        return "stmt", Stmt("nop")
    # assignment or call
    eq = scan(s, 0, "=", angle=False)
    if eq >= len(s):
        # a diverging call without destination?  e.g.  `panic(...) -> unwind continue`
        raise MirSyntaxError("statement %r" % s[:200])
    lhs = s[:eq].strip()
    rhs = s[eq + 1:].strip()
    arrow = find_arrow(rhs)
    if arrow is not None and rhs[:arrow].rstrip().endswith(")") and rhs[arrow + 4:].lstrip().startswith(("[", "bb", "unwind")):
        body = rhs[:arrow].rstrip()
        tg = parse_targets(rhs[arrow + 4:])
        # find the '(' matching the final ')': scan forward over top-level groups
        i = 0
        last_open = None
        while True:
            j = scan(body, i, "(", angle=True)
            if j >= len(body):
                break
            e = match_close(body, j, angle=True)
            last_open = (j, e)
            i = e + 1
        j, e = last_open
        assert e == len(body) - 1, body[-80:]
        callee_txt = body[:j].strip()
        args = [parse_operand(x) for x in split_top(body[j + 1:e])]
        if callee_txt.startswith("move ") or callee_txt.startswith("copy "):
            callee = parse_operand(callee_txt)
        else:
            callee = callee_txt
        return "term", Term("call", place=parse_place(lhs), callee=callee, args=args, target=tg.get("return"), text=None)
    return "stmt", Stmt("assign", place=parse_place(lhs), rv=parse_rvalue(rhs))


# --------------------------------------------------------------------------- whole file
_hdr_fn = re.compile(r"^fn (.*)$")
_let = re.compile(r"^\s*let (mut )?_(\d+): (.*);$")
_bbhdr = re.compile(r"^\s*bb(\d+)( \(cleanup\))?: \{$")


def parse_sig(h):
    """'NAME(ARGS) -> RET {'  ->  name, [(local, ty)], ret"""
    assert h.endswith("{"), h
    h = h[:-1].rstrip()
    # name may contain '<impl at ...>' and '{closure#0}'; args start at the first top-level '(' after the name
    i = 0
    while True:
        j = scan(h, i, "(", angle=True)
        if j >= len(h):
            raise MirSyntaxError("sig %r" % h[:200])
        # a '(' directly following the name (no space before it)
        e = match_close(h, j, angle=True)
        break
    name = h[:j]
    args = []
    for a in split_top(h[j + 1:e]):
        m = re.match(r"_(\d+): (.*)$", a, re.S)
        args.append((int(m.group(1)), m.group(2)))
    rest = h[e + 1:].strip()
    ret = rest[3:].strip() if rest.startswith("->") else "()"
    return name, args, ret


class FuncTable(dict):
    allocs = None


def parse_mir(text):
    funcs = FuncTable()
    allocs = funcs.allocs = {}
    order = []
    lines = text.split("\n")
    i = 0
    n = len(lines)
    cur = None
    curbb = None
    while i < n:
        line = lines[i]
        i += 1
        if not line.strip() or line.startswith("//"):
            continue
        if cur is None:
            if line.startswith("fn "):
                name, args, ret = parse_sig(line[3:])
                cur = Func(name, "fn", args, ret, header=line)
                for k, t in args:
                    cur.locals[k] = t
                cur.locals[0] = ret
            elif line.startswith("const ") or line.startswith("static ") or line.startswith("promoted["):
                # `const NAME: TY = {`  or one-liner `const NAME: TY = const V;`
                if line.rstrip().endswith("{"):
                    hd = line.rstrip()[:-1].rstrip()
                    assert hd.endswith("="), line
                    hd = hd[:-1].rstrip()
                    if line.startswith("promoted["):
                        m = re.match(r"promoted\[(\d+)\] in (.*)$", hd)
                        nm_ty = m.group(2)
                        k = scan(nm_ty, 0, ":", angle=True)
                        # names may contain '::' – find the ': ' that separates name from type
                        k = find_name_type_sep(nm_ty)
                        name = "%s::promoted[%s]" % (nm_ty[:k], m.group(1))
                        cur = Func(name, "promoted", [], nm_ty[k + 2:], header=line)
                    else:
                        kind = line.split(" ", 1)[0]
                        body = hd[len(kind) + 1:]
                        if body.startswith("mut "):
                            body = body[4:]
                        k = find_name_type_sep(body)
                        cur = Func(body[:k], kind, [], body[k + 2:], header=line)
                    cur.locals[0] = cur.ret
                else:
                    m = re.match(r"(const|static) (mut )?(.*)$", line.rstrip())
                    body = m.group(3)
                    k = find_name_type_sep(body)
                    name = body[:k]
                    rest = body[k + 2:]
                    eq = scan(rest, 0, "=", angle=True)
                    f = Func(name, m.group(1), [], rest[:eq].strip(), header=line)
                    f.const_value = parse_operand(rest[eq + 1:].strip().rstrip(";"))
                    funcs.setdefault(name, f)
            elif line.startswith("alloc"):
                m_ = re.match(r"(alloc\d+) \(static: ([^,]+),", line)
                if m_:
                    allocs[m_.group(1)] = m_.group(2).strip()
                # memory dump of a constant; skip to closing brace
                if not line.rstrip().endswith("{}"):
                    while i < n and not lines[i].startswith("}"):
                        i += 1
                    i += 1
            elif line.rstrip().endswith("= {") and ": " in line:
                # anonymous constant (inline const / thread_local accessor): `PATH::{constant#0}: TYPE = {`
                hd = line.rstrip()[:-1].rstrip()[:-1].rstrip()
                k = find_name_type_sep(hd)
                cur = Func(hd[:k], "const", [], hd[k + 2:], header=line)
                cur.locals[0] = cur.ret
            else:
                raise MirSyntaxError("top-level line %d: %r" % (i, line[:120]))
            continue
        # inside an item
        if line.startswith("}"):
            if cur.name in funcs:
                # duplicate names (ctor shims printed twice, trimmed paths): keep the first with blocks
                pass
            funcs.setdefault(cur.name, cur)
            order.append(cur.name)
            cur = None
            curbb = None
            continue
        m = _let.match(line)
        if m:
            cur.locals[int(m.group(2))] = m.group(3)
            continue
        m = _bbhdr.match(line)
        if m:
            curbb = Block(cleanup=bool(m.group(2)))
            cur.blocks[int(m.group(1))] = curbb
            continue
        st = line.strip()
        if st.startswith("debug ") or st.startswith("scope ") or st == "}" or st.startswith("let "):
            if st == "}" and curbb is not None and curbb.term is not None:
                curbb = None
            continue
        if curbb is None:
            raise MirSyntaxError("statement outside block line %d: %r" % (i, line[:120]))
        # statements may span several lines when string constants contain newlines
        full = line
        while not stmt_complete(full):
            full += "\n" + lines[i]
            i += 1
        kind, obj = parse_line(full)
        if kind == "stmt":
            if obj.kind != "nop":
                curbb.stmts.append(obj)
        else:
            curbb.term = obj
    return funcs


def stmt_complete(s):
    """A statement ends with ';' outside of any string literal."""
    t = s.rstrip()
    if not t.endswith(";"):
        return False
    # count unescaped double quotes outside char literals
    i = 0
    n = len(t)
    try:
        while i < n:
            c = t[i]
            if c == '"':
                i = skip_quote(t, i)
                continue
            if c == "'" and is_char_lit(t, i):
                i = skip_quote(t, i)
                continue
            i += 1
    except MirSyntaxError:
        return False
    return True


def find_name_type_sep(s):
    """index of the ': ' separating an item name from its type (names contain '::' and '<impl at a:1:2: 3:4>')"""
    i = 0
    while True:
        j = scan(s, i, ":", angle=True)
        if j >= len(s):
            raise MirSyntaxError("no type separator in %r" % s[:100])
        if s.startswith("::", j):
            i = j + 2
            continue
        if s.startswith(": ", j):
            return j
        i = j + 1


if __name__ == "__main__":
    import sys, collections
    fs = parse_mir(open(sys.argv[1]).read())
    print(len(fs), "items")
    kinds = collections.Counter()
    for f in fs.values():
        for b in f.blocks.values():
            for s in b.stmts:
                kinds["stmt:" + s.kind + (":" + s.rv.kind if s.rv else "")] += 1
            kinds["term:" + (b.term.kind if b.term else "NONE")] += 1
    for k, v in sorted(kinds.items()):
        print("%6d %s" % (v, k))
