#!/usr/local/bin/python3-vt
# tools_native.py [--repo DIR] input...   : what the natively built crate answers for each input (debug profile); development aid
import sys, os, json
sys.path.insert(0, os.path.dirname(os.path.abspath(__file__)))
import vlib
args = sys.argv[1:]
if args and args[0] == "--repo":
    os.environ["VERIF_REPO"] = args[1]; args = args[2:]
ctx = vlib.Scratch()
try:
    for t, d in zip(args, ctx.run_native(args, "debug")):
        print(repr(t), "->", json.dumps(d)[:600])
finally:
    ctx.cleanup()
